#!/bin/bash
# Run quick checks against a seeded change without touching /repo: the patch is applied to a scratch
# worktree of /repo's HEAD, the checks build from there into a scratch build directory, and both are
# removed afterwards.   usage: try_mutant.sh <patch.diff> <property> [<property> ...]
set -u
patch=$(readlink -f "$1"); shift
tag=$(basename "$(dirname "$patch")")_$$
wt=/tmp/mt_$tag
git -C /repo worktree add -q "$wt" HEAD || exit 2
if ! git -C "$wt" apply "$patch"; then echo "PATCH DOES NOT APPLY"; git -C /repo worktree remove --force "$wt"; exit 2; fi
rc=0
for p in "$@"; do
  echo "=== $p against $(basename "$(dirname "$patch")")/$(basename "$patch")"
  VERIF_REPO="$wt" VERIF_BUILD="/tmp/mtb_$tag" VERIF_OUT="/tmp/mto_$tag" VERIF_EVIDENCE="/tmp/mte_$tag" python3 /verif/verif.py check "$p" --tier "${TIER:-quick}" 2>&1 | grep -v "^KNOWN-FINDING" | grep "VIOLATION\|class=\|^OK\|^VIOLATIONS\|HARNESS\|failed" | cut -c1-400
  st=${PIPESTATUS[0]}
  echo "exit status of check $p: $st"
done
git -C /repo worktree remove --force "$wt"; git -C /repo worktree prune
rm -rf "/tmp/mtb_$tag" "/tmp/mto_$tag" "/tmp/mte_$tag"
