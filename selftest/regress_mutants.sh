#!/bin/bash
# Re-run the registered quick checks against every seeded change (or the ids given as arguments) and print one line per
# change: the checks named in its meta.json "caught_by" must exit 1.  Each trial applies the patch to a scratch worktree
# of /repo's HEAD (selftest/try_mutant.sh), so /repo itself is never touched.  A patch that no longer applies to HEAD is
# reported as such (the tree has moved on since the change was made).      usage: regress_mutants.sh [id ...]
cd "$(dirname "$0")/.." || exit 2
ids=("$@")
if [ ${#ids[@]} -eq 0 ]; then ids=($(ls seeded)); fi
fail=0
for id in "${ids[@]}"; do
  [ -f "seeded/$id/patch.diff" ] || continue
  props=$(python3 - "$id" <<'PY'
import json,sys,re
m=json.load(open('seeded/%s/meta.json' % sys.argv[1]))
print(' '.join(sorted({re.match(r'C\d\d', c).group(0) for c in m.get('caught_by', [m['property']]) if re.match(r'C\d\d', c)})))
PY
)
  out=$(selftest/try_mutant.sh "seeded/$id/patch.diff" $props 2>&1)
  if echo "$out" | grep -q "PATCH DOES NOT APPLY"; then echo "$id: patch does not apply to /repo HEAD any more"; continue; fi
  st=$(echo "$out" | grep "exit status" | awk '{print $NF}' | tr '\n' ' ')
  case " $st" in *" 1 "*|*" 1") verdict=caught;; *) verdict=MISSED; fail=1;; esac
  echo "$id [$props]: $verdict (exit $st; $(echo "$out" | grep -c '^VIOLATION') violation lines)"
done
exit $fail
