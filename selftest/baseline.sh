#!/bin/bash
# Rebuild /repo/_build (guard OFF) and run the repository's own suite; succeed iff the set of failing
# gtest cases is exactly the baseline's always-fail set (libxml2 2.13 message texts).
set -u
cmake --build /repo/_build > /tmp/baseline_build.log 2>&1 || { tail -20 /tmp/baseline_build.log; echo "BUILD FAILED"; exit 1; }
ctest --test-dir /repo/_build -j8 --timeout 900 > /tmp/baseline_ctest.log 2>&1
failed=$(grep -h "^\[  FAILED  \] [A-Za-z]*\.[A-Za-z0-9_]* (" /repo/_build/Testing/Temporary/LastTest.log | sed 's/^\[  FAILED  \] \([^ ]*\) .*/\1/' | sort -u | tr '\n' ' ')
passed=$(grep -c "^\[       OK \]" /repo/_build/Testing/Temporary/LastTest.log)
expected="Parser.invalidXMLElements Printer.mathMLInResetWithSyntaxError Printer.mathMLWithSyntaxError "
crashed=$(grep -c "(SEGFAULT)\|(Subprocess aborted)\|(Timeout)\|(ILLEGAL)\|(BAD_COMMAND)\|(Not Run)" /tmp/baseline_ctest.log)
nfailbin=$(grep -c "^\s*[0-9]* - .* (" /tmp/baseline_ctest.log)
echo "passed gtest cases: $passed; failed: $failed; failing ctest binaries: $nfailbin (crashed/timeout: $crashed)"
if [ "$crashed" != "0" ] || [ "$nfailbin" != "2" ]; then echo "BASELINE DIFFERS (a test binary crashed or an unexpected binary failed)"; grep "^\s*[0-9]* - " /tmp/baseline_ctest.log; exit 1; fi
if [ "$failed" == "$expected" ]; then echo "BASELINE OK"; exit 0; else echo "BASELINE DIFFERS (expected: $expected)"; exit 1; fi
