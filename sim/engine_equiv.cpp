// Engine `equiv` (C18): variable-equivalence queries against the connection graph under a
// simulated allocator (seeded layouts and planted cache-key collisions), seeded query orders
// and repetitions.
#include <algorithm>
#include <map>
#include <numeric>
#include <set>
#include <condition_variable>
#include <mutex>
#include <thread>

#include <libcellml/module/libcellml>

#include "alloc.h"
#include "dump.h"
#include "kernel.h"
#include "monitor.h"
#include "verifhooks.h"

using namespace libcellml;
using namespace sim;

namespace {

// ---- the modelled key function (used only to *search* for collisions; every prediction is
// confirmed against the key the real method computed, through the observer hook)
uint64_t modelKey(uint64_t v1, uint64_t v2)
{
    if (v2 < v1) {
        std::swap(v1, v2);
    }
    return (((v1 + v2) * (v1 + v2 + 1)) >> 1U) + v2;
}

uint64_t inverseOdd(uint64_t a)
{
    uint64_t x = a; // Newton iteration mod 2^64, valid for odd a
    for (int i = 0; i < 6; ++i) {
        x *= 2 - a * x;
    }
    return x;
}

const uint64_t ZONE = 16u << 20;

// Find (base, a, b, c, d): four 16-aligned addresses inside [base, base+ZONE) with
// modelKey(a,b) == modelKey(c,d), {a,b} != {c,d}, all at least 256 bytes apart.
bool findCollision(Rng &rng, uint64_t out[5])
{
    for (int attempt = 0; attempt < 200000; ++attempt) {
        uint64_t dp = (rng.below(1u << 12) * 2 + 1); // odd
        uint64_t delta = 32 * dp; // difference of the two sums
        uint64_t M = rng.below(1u << 14) * 2 + 1; // odd
        uint64_t m = 16 * M; // difference of the two larger addresses
        // (2s + delta + 1) * dp == M (mod 2^59)  =>  2s == M*dp^-1 - delta - 1 (mod 2^59)
        uint64_t mod = (uint64_t(1) << 59) - 1;
        uint64_t twoS = (M * inverseOdd(dp) - delta - 1) & mod;
        if ((twoS & 31) != 0) {
            continue;
        }
        uint64_t s = twoS >> 1;
        if (s < (uint64_t(0x100000000000) * 2) || s > (uint64_t(0x500000000000) * 2)) {
            continue;
        }
        // place a < b with a + b = s, roughly in the middle of the zone
        uint64_t mid = s / 2;
        uint64_t base = (mid - ZONE / 2) & ~uint64_t(0xfff);
        if (base >= 0x1f0000000000ULL && base <= 0x210000000000ULL) {
            continue; // the simulated allocator's own arena
        }
        uint64_t b = ((mid + 4096 + rng.below(ZONE / 8)) & ~uint64_t(15));
        uint64_t a = s - b;
        uint64_t d = b - m;
        uint64_t c = s + delta - d;
        uint64_t v[4] = {a, b, c, d};
        bool ok = a < b && c < d;
        for (int i = 0; i < 4 && ok; ++i) {
            ok = (v[i] & 15) == 0 && v[i] >= base + 4096 && v[i] + 4096 < base + ZONE;
            for (int j = 0; j < i && ok; ++j) {
                uint64_t diff = v[i] > v[j] ? v[i] - v[j] : v[j] - v[i];
                ok = diff >= 256;
            }
        }
        if (!ok || modelKey(a, b) != modelKey(c, d)) {
            continue;
        }
        out[0] = base;
        out[1] = a;
        out[2] = b;
        out[3] = c;
        out[4] = d;
        return true;
    }
    return false;
}

// ---- plan generation

Plan generate(Rng &rng, const Opts &opts, uint64_t)
{
    Plan p;
    p.engine = "equiv";
    long nComps = opts.f("comps", rng.range(2, 8));
    long nVars = opts.f("vars", rng.range(4, opts.tier == "thorough" ? 24 : 16));
    long policy = opts.f("policy", long(rng.below(3)));
    long planted = opts.f("planted", rng.chance(1, 3) ? 1 : 0);
    long graphKind = opts.f("graph", long(rng.below(5))); // 0 chains 1 stars 2 cycles 3 random 4 sparse/singletons
    p.cfg["policy"] = policy;
    p.cfg["allocseed"] = long(rng.below(1u << 30));
    p.cfg["comps"] = nComps;
    p.cfg["parsed"] = opts.f("parsed", rng.chance(1, 4) ? 1 : 0);
    std::vector<long> comp(static_cast<size_t>(nVars));
    uint64_t col[5] = {0, 0, 0, 0, 0};
    bool havePlant = planted == 1 && findCollision(rng, col);
    if (havePlant) {
        p.cfg["plantbase"] = long(col[0]);
        p.cfg["parsed"] = 0;
    }
    // Lattice layouts: 16 variables on a 4 x 4 grid base + p*s1 + q*(s1 << m).  Keys that fold the two addresses
    // together with shifts, XOR or truncation collide on such grids whatever their exact formula; the oracle and the
    // key-bytes probe do not need to know it.
    bool lattice = planted == 2;
    uint64_t latS1 = 0, latS2 = 0, latBase = 0x300000000000ULL;
    if (lattice) {
        static const uint64_t s1s[] = {0x40, 0x100, 0x400};
        static const int shifts[] = {4, 8, 12, 16, 20};
        latS1 = s1s[rng.below(3)];
        latS2 = latS1 << shifts[rng.below(5)];
        if (latS2 < 4 * latS1 + 0x100) {
            latS2 = 8 * latS1;
        }
        nVars = std::max<long>(nVars, 16);
        comp.assign(static_cast<size_t>(nVars), 0);
        p.cfg["plantbase"] = long(latBase);
        p.cfg["plantzone"] = long(4 * latS2 + 0x10000);
        p.cfg["parsed"] = 0;
    }
    for (long i = 0; i < nVars; ++i) {
        comp[size_t(i)] = i < nComps ? i : long(rng.below(uint64_t(nComps)));
        Step s;
        s.op = "VAR";
        s.a = {comp[size_t(i)], 0};
        if (havePlant && i < 4) {
            // variables 0..3 are a, b, c, d; put them in four different components
            comp[size_t(i)] = i % nComps;
            s.a = {comp[size_t(i)], long(col[1 + i])};
        }
        if (lattice && i < 16) {
            comp[size_t(i)] = i % nComps;
            s.a = {comp[size_t(i)], long(latBase + 0x1000 + uint64_t(i % 4) * latS1 + uint64_t(i / 4) * latS2)};
        }
        p.steps.push_back(s);
    }
    bool withIds = opts.f("edgeids", rng.chance(1, 2) ? 1 : 0) != 0;
    auto edge = [&](long i, long j) {
        if (i != j && comp[size_t(i)] != comp[size_t(j)]) {
            Step s;
            s.op = "EDGE";
            s.a = {i, j, withIds ? long(rng.below(3)) : 0}; // 0 plain, 1 four-argument form with ids, 2 ids set afterwards
            p.steps.push_back(s);
            return true;
        }
        return false;
    };
    if (havePlant && nComps >= 2) {
        // exactly one of the two colliding pairs is connected
        bool abConnected = rng.chance(1, 2);
        if (nComps >= 4 || comp[0] != comp[1]) {
            if (abConnected) {
                edge(0, 1);
            } else {
                edge(2, 3);
            }
        }
        // remaining variables: random edges that never join {a,b} with {c,d} through 0..3
        for (long i = 4; i < nVars; ++i) {
            if (rng.chance(1, 2)) {
                long j = 4 + long(rng.below(uint64_t(nVars - 4)));
                edge(i, j);
            }
        }
        p.cfg["plantquerypair"] = abConnected ? 0 : 1;
    } else {
        std::vector<long> order(static_cast<size_t>(nVars));
        std::iota(order.begin(), order.end(), 0);
        for (size_t i = order.size(); i > 1; --i) {
            std::swap(order[i - 1], order[rng.below(i)]);
        }
        switch (graphKind) {
        case 0: { // chains of random length
            size_t i = 0;
            while (i + 1 < order.size()) {
                size_t len = 2 + rng.below(5);
                for (size_t k = 1; k < len && i + k < order.size(); ++k) {
                    edge(order[i + k - 1], order[i + k]);
                }
                i += len;
            }
            break;
        }
        case 1: { // stars
            size_t i = 0;
            while (i + 1 < order.size()) {
                size_t len = 2 + rng.below(5);
                for (size_t k = 1; k < len && i + k < order.size(); ++k) {
                    edge(order[i], order[i + k]);
                }
                i += len;
            }
            break;
        }
        case 2: { // cycles
            size_t i = 0;
            while (i + 2 < order.size()) {
                size_t len = 3 + rng.below(4);
                size_t end = std::min(order.size(), i + len);
                for (size_t k = i + 1; k < end; ++k) {
                    edge(order[k - 1], order[k]);
                }
                edge(order[end - 1], order[i]);
                i = end;
            }
            break;
        }
        case 3: { // random edges
            long ne = long(rng.below(uint64_t(nVars * 2)));
            for (long k = 0; k < ne; ++k) {
                edge(long(rng.below(uint64_t(nVars))), long(rng.below(uint64_t(nVars))));
            }
            break;
        }
        default: { // sparse
            long ne = long(rng.below(uint64_t(nVars / 2 + 1)));
            for (long k = 0; k < ne; ++k) {
                edge(long(rng.below(uint64_t(nVars))), long(rng.below(uint64_t(nVars))));
            }
        }
        }
    }
    // a history before the analysis: equivalences are cut again (singly, or all of a variable's at once) and
    // some are re-made, so that whatever the library keeps per equivalence (ids, caches) can go stale
    if (!havePlant && opts.f("cuts", rng.chance(1, 2) ? 1 : 0) != 0) {
        long nCuts = rng.range(1, 4);
        for (long k = 0; k < nCuts; ++k) {
            Step s;
            if (rng.chance(1, 2)) {
                s.op = "CLEAREQ";
                s.a = {long(rng.below(uint64_t(nVars)))};
            } else {
                s.op = "UNEDGE";
                s.a = {long(rng.below(uint64_t(nVars))), long(rng.below(uint64_t(nVars)))};
            }
            p.steps.push_back(s);
        }
        long nRe = rng.range(0, 2);
        for (long k = 0; k < nRe; ++k) {
            edge(long(rng.below(uint64_t(nVars))), long(rng.below(uint64_t(nVars))));
        }
    }
    bool kills = !havePlant && !lattice && opts.f("kills", rng.chance(1, 3) ? 1 : 0) != 0;
    if (kills) {
        p.cfg["parsed"] = 0;
        long nk = rng.range(1, 3);
        for (long k = 0; k < nk; ++k) {
            Step s;
            s.op = "KILL";
            s.a = {long(rng.below(uint64_t(nVars)))};
            // the same question to the same variable right before and right after a variable dies (nothing else in between)
            Step h;
            h.op = "HX";
            h.a = {long(rng.below(uint64_t(nVars))), long(rng.below(uint64_t(nVars))), 0};
            bool around = rng.chance(2, 3);
            if (around) {
                p.steps.push_back(h);
            }
            p.steps.push_back(s);
            if (around) {
                p.steps.push_back(h);
            }
        }
    }
    Step an;
    an.op = "ANALYSE";
    p.steps.push_back(an);
    // queries: all ordered pairs, each 1..3 times, seeded order, both query functions
    std::vector<Step> qs;
    if (havePlant) {
        // make sure the connected planted pair is queried first in a fraction of the runs
        // (the analysis itself has usually populated the cache already)
        Step s;
        s.op = "Q";
        s.a = p.cfg["plantquerypair"] == 0 ? std::vector<long> {0, 1} : std::vector<long> {2, 3};
        qs.push_back(s);
    }
    bool threads = opts.f("threads", rng.chance(1, 3) ? 1 : 0) != 0; // some questions come from other caller threads
    std::vector<Step> rest;
    for (long i = 0; i < nVars; ++i) {
        for (long j = 0; j < nVars; ++j) {
            long reps = 1 + long(rng.below(3));
            for (long r = 0; r < reps; ++r) {
                Step s;
                s.op = rng.chance(3, 4) ? "Q" : "H";
                s.a = {i, j, threads && rng.chance(1, 4) ? 1 : 0};
                if (s.op == "H" && i == j) {
                    s.op = "Q";
                }
                rest.push_back(s);
            }
        }
    }
    if (threads) {
        long np = rng.range(2, 8);
        for (long k = 0; k < np; ++k) {
            Step s;
            s.op = "PAR";
            s.a = {long(rng.below(uint64_t(nVars))), long(rng.below(uint64_t(nVars))), long(rng.below(uint64_t(nVars))), long(rng.below(uint64_t(nVars))), long(rng.below(1ull << 60)), long(rng.below(2))};
            if (rng.chance(1, 3)) {
                // the same pair, or its mirror image, asked by both callers at once
                s.a[2] = rng.chance(1, 2) ? s.a[0] : s.a[1];
                s.a[3] = s.a[2] == s.a[0] ? s.a[1] : s.a[0];
            }
            rest.push_back(s);
        }
    }
    if (!havePlant && opts.f("allocfaults", rng.chance(1, 3) ? 1 : 0) != 0) {
        // some questions are asked while an allocation fails inside the call
        long nf = rng.range(2, 10);
        for (long k = 0; k < nf; ++k) {
            Step s;
            s.op = "QF";
            s.a = {long(rng.below(uint64_t(nVars))), long(rng.below(uint64_t(nVars))), long(rng.below(12))};
            rest.push_back(s);
        }
    }
    for (size_t i = rest.size(); i > 1; --i) {
        std::swap(rest[i - 1], rest[rng.below(i)]);
    }
    size_t cap = opts.tier == "thorough" ? 900 : 500;
    if (rest.size() > cap) {
        rest.resize(cap);
    }
    qs.insert(qs.end(), rest.begin(), rest.end());
    // a component is taken out of the analysed model and put back later, with queries in between: the equivalences
    // themselves are untouched, so every answer must stay what the connection graph says (before, during and after)
    if (!havePlant && !lattice && p.cfg["parsed"] == 0 && qs.size() > 4 && opts.f("moves", rng.chance(1, 3) ? 1 : 0) != 0) {
        p.cfg["moves"] = 1;
        long nMoves = rng.range(1, 2);
        for (long k = 0; k < nMoves; ++k) {
            size_t a = rng.below(qs.size() - 2), b = a + 1 + rng.below(qs.size() - a - 1);
            Step d, t;
            d.op = "DETACH";
            t.op = "ATTACH";
            d.a = t.a = {long(rng.below(8))};
            qs.insert(qs.begin() + long(b), t);
            qs.insert(qs.begin() + long(a), d);
        }
    }
    p.steps.insert(p.steps.end(), qs.begin(), qs.end());
    // a second phase: the model is edited after it has been analysed and queried, analysed again (by the same
    // analyser or a new one) and queried again - whatever was memoised for the first analysis must not answer now
    if (!havePlant && !lattice && p.cfg["parsed"] == 0 && opts.f("phases", rng.chance(1, 3) ? 1 : 0) != 0) {
        p.cfg["phases"] = 1;
        long nEd = rng.range(1, 5);
        for (long k = 0; k < nEd; ++k) {
            unsigned r = unsigned(rng.below(10));
            Step s;
            if (r < 4) {
                long i = long(rng.below(uint64_t(nVars))), j = long(rng.below(uint64_t(nVars)));
                if (i == j || comp[size_t(i)] == comp[size_t(j)]) {
                    continue;
                }
                s.op = "EDGE";
                s.a = {i, j, 0};
            } else if (r < 7) {
                s.op = "UNEDGE";
                s.a = {long(rng.below(uint64_t(nVars))), long(rng.below(uint64_t(nVars)))};
            } else if (r < 9) {
                s.op = "CLEAREQ";
                s.a = {long(rng.below(uint64_t(nVars)))};
            } else {
                s.op = "KILL";
                s.a = {long(rng.below(uint64_t(nVars)))};
                Step h;
                h.op = "HX";
                h.a = {long(rng.below(uint64_t(nVars))), long(rng.below(uint64_t(nVars))), 0};
                p.steps.push_back(h);
                p.steps.push_back(s);
                p.steps.push_back(h);
                continue;
            }
            p.steps.push_back(s);
        }
        Step an2;
        an2.op = "ANALYSE";
        an2.a = {long(rng.below(2))};
        p.steps.push_back(an2);
        size_t n2 = std::min<size_t>(rest.size(), 200);
        for (size_t k = 0; k < n2; ++k) {
            p.steps.push_back(rest[rng.below(rest.size())]);
        }
    }
    return p;
}

// ---- execution

struct Observed
{
    std::set<std::pair<uintptr_t, uintptr_t>> pairs;
    std::map<std::string, std::pair<uintptr_t, uintptr_t>> keyOwner;
    long hitsOnNeverQueried = 0;
    long keyCollisions = 0;
    long calls = 0;
    long hits = 0;
};
Observed *gObs = nullptr;

void observer(const void *, uintptr_t v1, uintptr_t v2, const void *keyBytes, size_t keySize, bool hit, size_t)
{
    std::string key(static_cast<const char *>(keyBytes), keySize);
    if (gObs == nullptr) {
        return;
    }
    ++gObs->calls;
    auto pr = std::make_pair(v1, v2);
    bool seen = gObs->pairs.count(pr) != 0;
    if (hit) {
        ++gObs->hits;
        if (!seen) {
            ++gObs->hitsOnNeverQueried;
        }
    }
    auto it = gObs->keyOwner.find(key);
    if (it == gObs->keyOwner.end()) {
        gObs->keyOwner[key] = pr;
    } else if (it->second != pr && !seen) {
        ++gObs->keyCollisions;
    }
    gObs->pairs.insert(pr);
}

struct UnionFind
{
    std::vector<size_t> p;
    explicit UnionFind(size_t n)
        : p(n)
    {
        std::iota(p.begin(), p.end(), 0);
    }
    size_t find(size_t x)
    {
        while (p[x] != x) {
            x = p[x] = p[p[x]];
        }
        return x;
    }
    void join(size_t a, size_t b) { p[find(a)] = find(b); }
};

// Two caller threads whose walks over the equivalence graph are interleaved by the plan: each thread runs only while it
// holds the turn, gives it back at every scheduling point of the library (hook H3) and when it is done; the scheduler (the
// simulator's own thread) hands the turn out according to the schedule bits.  One thread runs at any time, so the run is a
// pure function of the plan.
struct Turns
{
    std::mutex m;
    std::condition_variable cv;
    int turn = -1; // -1: the scheduler; 0/1: that caller thread
    bool done[2] = {false, false};
    long switches = 0;
};
Turns *gTurns = nullptr;
thread_local int tCaller = -1;

void yieldToScheduler(const char *)
{
    if (gTurns == nullptr || tCaller < 0) {
        return;
    }
    std::unique_lock<std::mutex> lock(gTurns->m);
    gTurns->turn = -1;
    gTurns->cv.notify_all();
    gTurns->cv.wait(lock, [] { return gTurns->turn == tCaller; });
}

// runs the two questions under the schedule; returns the number of times the turn changed hands
long runInterleaved(const std::function<void()> &q0, const std::function<void()> &q1, uint64_t schedule)
{
    Turns turns;
    gTurns = &turns;
    libcellml::verif::yieldPoint = yieldToScheduler;
    auto body = [&](int id, const std::function<void()> &q) {
        tCaller = id;
        {
            std::unique_lock<std::mutex> lock(turns.m);
            turns.cv.wait(lock, [&] { return turns.turn == id; });
        }
        q();
        std::unique_lock<std::mutex> lock(turns.m);
        turns.done[id] = true;
        turns.turn = -1;
        turns.cv.notify_all();
    };
    std::thread t0(body, 0, std::cref(q0)), t1(body, 1, std::cref(q1));
    int last = -1;
    for (uint64_t step = 0; !(turns.done[0] && turns.done[1]); ++step) {
        int pick = int((schedule >> (step % 60)) & 1u);
        if (turns.done[pick]) {
            pick = 1 - pick;
        }
        std::unique_lock<std::mutex> lock(turns.m);
        if (pick != last && last >= 0) {
            ++turns.switches;
        }
        last = pick;
        turns.turn = pick;
        turns.cv.notify_all();
        turns.cv.wait(lock, [&] { return turns.turn == -1; });
    }
    t0.join();
    t1.join();
    libcellml::verif::yieldPoint = nullptr;
    gTurns = nullptr;
    return turns.switches;
}

void execute(const Plan &plan, Ctx &ctx)
{
    Observed obs;
    gObs = &obs;
    libcellml::verif::equivalenceCacheObserver = observer;
    long policy = plan.c("policy", 0);
    simalloc::beginRun(int(policy), uint64_t(plan.c("allocseed", 1)));
    bool plantOk = false;
    if (plan.c("plantbase", 0) != 0 && simalloc::active()) {
        plantOk = simalloc::setPlantZone(uintptr_t(plan.c("plantbase")), size_t(plan.c("plantzone", long(ZONE))));
        ctx.count(plantOk ? "plant_zone_mapped" : "plant_zone_unmappable");
    }
    long nComps = std::max<long>(1, plan.c("comps", 2));
    auto model = Model::create("m");
    std::vector<ComponentPtr> comps;
    for (long i = 0; i < nComps; ++i) {
        auto c = Component::create("c" + str(i));
        model->addComponent(c);
        comps.push_back(c);
    }
    std::vector<bool> detached(comps.size(), false);
    std::vector<VariablePtr> vars;
    std::vector<long> varComp;
    std::vector<std::pair<long, long>> edges;
    AnalyserPtr analyser;
    AnalyserModelPtr am;
    std::vector<std::vector<bool>> truth;
    bool parsed = plan.c("parsed", 0) != 0;
    bool phases = plan.c("phases", 0) != 0 && !parsed; // the model may be edited and analysed again after the first analysis
    int stepNo = -1;
    for (auto &s : plan.steps) {
        ++stepNo;
        if (s.op == "VAR") {
            if (am != nullptr) {
                continue; // the analysed model is static
            }
            ctx.begin(stepNo, "VAR", "");
            long ci = ((s.arg(0) % nComps) + nComps) % nComps;
            long addr = s.arg(1);
            if (addr != 0 && plantOk) {
                simalloc::plant(sizeof(libcellml::Variable), uintptr_t(addr));
            }
            auto v = Variable::create("v" + str(vars.size()));
            if (simalloc::plantPending()) {
                ctx.violate("C18", "harness-plant-not-consumed", "", "planted allocation was not consumed by Variable::create");
            }
            if (addr != 0 && plantOk) {
                if (uintptr_t(v.get()) == uintptr_t(addr)) {
                    ctx.count("fault_variable_planted_at_colliding_address");
                } else {
                    ctx.count("plant_misplaced");
                }
            }
            v->setUnits("dimensionless");
            v->setInterfaceType("public");
            comps[size_t(ci)]->addVariable(v);
            vars.push_back(v);
            varComp.push_back(ci);
            ctx.ev("VAR " + str(vars.size() - 1) + " comp " + str(ci) + (simalloc::active() ? " at " + hex64(uintptr_t(v.get())) : ""));
        } else if (s.op == "EDGE") {
            if ((am != nullptr && !phases) || vars.size() < 2) {
                continue;
            }
            ctx.begin(stepNo, "EDGE", "");
            size_t i = size_t(s.arg(0)) % vars.size(), j = size_t(s.arg(1)) % vars.size();
            if (i == j || varComp[i] == varComp[j] || vars[i] == nullptr || vars[j] == nullptr) {
                continue;
            }
            am = nullptr; // the model changes: what was analysed before is history
            bool ok;
            long form = ((s.arg(2) % 3) + 3) % 3;
            if (form == 1) {
                ok = Variable::addEquivalence(vars[i], vars[j], "map_" + str(stepNo), "con_" + str(std::min(varComp[i], varComp[j])) + "_" + str(std::max(varComp[i], varComp[j])));
            } else {
                ok = Variable::addEquivalence(vars[i], vars[j]);
                if (form == 2) {
                    // ids through the setter, which also accepts pairs that are only indirectly equivalent
                    Variable::setEquivalenceMappingId(vars[i], vars[j], "map_" + str(stepNo));
                    for (size_t k = 0; k < vars.size(); ++k) {
                        if (k != i && k != j && vars[k] != nullptr && vars[i]->hasEquivalentVariable(vars[k], true) && ((k + size_t(stepNo)) % 3) == 0) {
                            Variable::setEquivalenceMappingId(vars[i], vars[k], "imap_" + str(stepNo) + "_" + str(k));
                        }
                    }
                }
            }
            edges.emplace_back(long(i), long(j));
            ctx.count(form == 0 ? "edges_plain" : "edges_with_ids");
            ctx.ev("EDGE " + str(i) + " " + str(j) + " -> " + str(ok));
        } else if (s.op == "UNEDGE") {
            if ((am != nullptr && !phases) || vars.size() < 2) {
                continue;
            }
            ctx.begin(stepNo, "UNEDGE", "");
            size_t i = size_t(s.arg(0)) % vars.size(), j = size_t(s.arg(1)) % vars.size();
            if (vars[i] == nullptr || vars[j] == nullptr) {
                continue;
            }
            am = nullptr;
            bool ok = Variable::removeEquivalence(vars[i], vars[j]);
            edges.erase(std::remove_if(edges.begin(), edges.end(), [&](const std::pair<long, long> &pr) { return (pr.first == long(i) && pr.second == long(j)) || (pr.first == long(j) && pr.second == long(i)); }), edges.end());
            ctx.count("fault_equivalence_cut_before_analysis");
            ctx.ev("UNEDGE " + str(i) + " " + str(j) + " -> " + str(ok));
        } else if (s.op == "KILL") {
            // the variable is taken out of its component and the last reference to it is dropped: every
            // equivalence that went through it now ends at an expired weak reference
            if ((am != nullptr && !phases) || vars.empty()) {
                continue;
            }
            size_t i = size_t(s.arg(0)) % vars.size();
            if (vars[i] == nullptr) {
                continue;
            }
            ctx.begin(stepNo, "KILL", "");
            am = nullptr;
            comps[size_t(varComp[i])]->removeVariable(vars[i]);
            std::weak_ptr<Variable> gone = vars[i];
            vars[i] = nullptr;
            edges.erase(std::remove_if(edges.begin(), edges.end(), [&](const std::pair<long, long> &pr) { return pr.first == long(i) || pr.second == long(i); }), edges.end());
            ctx.count("fault_variable_destroyed");
            ctx.ev("KILL " + str(i) + (gone.expired() ? " gone" : " still-alive"));
        } else if (s.op == "CLEAREQ") {
            if ((am != nullptr && !phases) || vars.empty()) {
                continue;
            }
            size_t i = size_t(s.arg(0)) % vars.size();
            if (vars[i] == nullptr) {
                continue;
            }
            ctx.begin(stepNo, "CLEAREQ", "");
            am = nullptr;
            vars[i]->removeAllEquivalences();
            edges.erase(std::remove_if(edges.begin(), edges.end(), [&](const std::pair<long, long> &pr) { return pr.first == long(i) || pr.second == long(i); }), edges.end());
            ctx.count("fault_equivalence_cut_before_analysis");
            ctx.ev("CLEAREQ " + str(i));
        } else if (s.op == "ANALYSE") {
            if (am != nullptr || vars.empty()) {
                continue;
            }
            ctx.begin(stepNo, "ANALYSE", "");
            for (size_t ci = 0; ci < comps.size(); ++ci) {
                if (detached[ci]) { // (a plan from which the shrinker removed the ATTACH step)
                    model->addComponent(comps[ci]);
                    detached[ci] = false;
                }
            }
            // ground truth from the model itself (equivalentVariable lists), cross-checked with the plan's edges;
            // computed before the analysis (to write one equation per class) and again after it (a variable that only
            // an earlier analysis result kept alive dies when the analyser lets go of that result)
            std::set<size_t> classes;
            std::vector<size_t> classOf(vars.size(), 0);
            bool truthFailed = false;
            auto computeTruth = [&]() {
                classes.clear();
            std::map<const Variable *, size_t> index;
            for (size_t i = 0; i < vars.size(); ++i) {
                if (vars[i] != nullptr) {
                    index[vars[i].get()] = i;
                }
            }
            // (a variable that was taken out of the model but is kept alive by an earlier analysis result still
            // links its neighbours: it gets a node of its own)
            std::vector<VariablePtr> nodes;
            for (size_t i = 0; i < vars.size(); ++i) {
                nodes.push_back(vars[i]);
            }
            bool outsideModel = false;
            for (size_t n = 0; n < nodes.size() && nodes.size() < 4096; ++n) {
                for (size_t k = 0; nodes[n] != nullptr && k < nodes[n]->equivalentVariableCount(); ++k) {
                    auto e = nodes[n]->equivalentVariable(k);
                    if (e != nullptr && index.count(e.get()) == 0) {
                        index[e.get()] = nodes.size();
                        nodes.push_back(e);
                        outsideModel = true;
                    }
                }
            }
            if (outsideModel) {
                ctx.count("equivalents_kept_alive_outside_the_model");
            }
            UnionFind uf(nodes.size()), ufPlan(vars.size());
            for (size_t i = 0; i < nodes.size(); ++i) {
                for (size_t k = 0; nodes[i] != nullptr && k < nodes[i]->equivalentVariableCount(); ++k) {
                    auto e = nodes[i]->equivalentVariable(k);
                    if (e == nullptr) {
                        ctx.violate("C18", "equivalent-variable-null", "", "equivalentVariable(i) returned null for i < equivalentVariableCount()");
                        truthFailed = true;
                        truthFailed = true;
                    return;
                    }
                    uf.join(i, index[e.get()]);
                }
            }
            for (auto &e : edges) {
                ufPlan.join(size_t(e.first), size_t(e.second));
            }
            truth.assign(vars.size(), std::vector<bool>(vars.size(), false));
            for (size_t i = 0; i < vars.size(); ++i) {
                if (vars[i] == nullptr) {
                    continue;
                }
                classes.insert(uf.find(i));
                for (size_t j = 0; j < vars.size(); ++j) {
                    if (vars[j] == nullptr) {
                        continue;
                    }
                    truth[i][j] = uf.find(i) == uf.find(j);
                    if (!outsideModel && truth[i][j] != (ufPlan.find(i) == ufPlan.find(j))) {
                        ctx.violate("C18", "graph-differs-from-edges", "", "equivalentVariable lists disagree with the equivalences added");
                        truthFailed = true;
                        truthFailed = true;
                    return;
                    }
                }
            }
                for (size_t i = 0; i < vars.size(); ++i) {
                    classOf[i] = uf.find(i);
                }
            };
            computeTruth();
            if (truthFailed) {
                return;
            }
            std::set<size_t> classesBefore = classes;
            // one defining equation per equivalence class, in the component of its first member
            std::vector<std::string> math(comps.size());
            std::set<size_t> done;
            for (size_t i = 0; i < vars.size(); ++i) {
                if (vars[i] != nullptr && done.insert(classOf[i]).second) {
                    math[size_t(varComp[i])] += "<apply><eq/><ci>v" + str(i) + "</ci><cn cellml:units=\"dimensionless\">" + str(i + 1) + "</cn></apply>";
                }
            }
            for (size_t c = 0; c < comps.size(); ++c) {
                if (!math[c].empty()) {
                    comps[c]->setMath("<math xmlns=\"http://www.w3.org/1998/Math/MathML\" xmlns:cellml=\"http://www.cellml.org/cellml/2.0#\">" + math[c] + "</math>");
                } else {
                    comps[c]->removeMath();
                }
            }
            if (parsed) {
                // rebuild the model through printer + parser: objects are then created by the parser
                auto printer = Printer::create();
                std::string text = printer->printModel(model);
                auto parser = Parser::create();
                auto pm = parser->parseModel(text);
                if (pm == nullptr || parser->issueCount() != 0) {
                    ctx.count("parsed_rebuild_failed");
                } else {
                    std::vector<VariablePtr> nv;
                    bool ok = pm->componentCount() == comps.size();
                    for (size_t i = 0; i < vars.size() && ok; ++i) {
                        auto c = pm->component("c" + str(varComp[i]));
                        auto v = c ? c->variable("v" + str(i)) : nullptr;
                        ok = v != nullptr;
                        nv.push_back(v);
                    }
                    if (ok) {
                        model = pm;
                        vars = nv;
                        ctx.count("parsed_models");
                    } else {
                        ctx.count("parsed_rebuild_failed");
                    }
                }
            }
            if (analyser == nullptr || s.arg(0) % 2 != 0) {
                analyser = Analyser::create();
            } else {
                ctx.count("fault_same_analyser_reanalyses_edited_model");
            }
            obs = Observed();
            analyser->analyseModel(model);
            am = analyser->model();
            checkLogger(ctx, analyser, "analyser", "analyseModel", analysisFailed(am));
            ctx.count("analyses");
            ctx.count("analysis_cache_calls", obs.calls);
            if (am == nullptr) {
                ctx.violate("C18", "no-analyser-model", "", "Analyser::model() is null after analyseModel");
                return;
            }
            computeTruth();
            if (truthFailed) {
                return;
            }
            bool classesStable = classes.size() == classesBefore.size();
            ctx.ev("ANALYSE type=" + AnalyserModel::typeAsString(am->type()) + " issues=" + str(analyser->issueCount()) + " vars=" + str(am->variableCount()) + (analyser->issueCount() > 0 ? " first=" + analyser->issue(0)->description() : ""));
            if (analyser->errorCount() == 0 && am->isValid()) {
                ctx.count("valid_analyses");
                if (classesStable && am->variableCount() + am->stateCount() != classes.size()) {
                    std::string tag = obs.hitsOnNeverQueried > 0 ? "cache-collision-during-analysis" : "";
                    ctx.violate("C18", "analysis-class-count", tag, "analysed model has " + str(am->variableCount()) + " variables for " + str(classes.size()) + " classes of connected variables");
                    return;
                }
            } else if (analyser->errorCount() != 0) {
                ctx.count("analyses_with_errors");
                if (obs.hitsOnNeverQueried > 0) {
                    // a valid-by-construction model was rejected while a cache collision was observed during the analysis
                    ctx.violate("C18", "analysis-corrupted-by-collision", "cache-collision-during-analysis", "analysis of a valid model reported errors while the equivalence cache served an answer for a pair that was never asked: " + analyser->issue(0)->description());
                    return;
                }
            }
        } else if (s.op == "DETACH" || s.op == "ATTACH") {
            if (am == nullptr || parsed) {
                continue;
            }
            size_t ci = size_t(s.arg(0)) % comps.size();
            if (s.op == "DETACH" && !detached[ci]) {
                ctx.begin(stepNo, "DETACH", "");
                model->removeComponent(comps[ci], false);
                detached[ci] = true;
                ctx.count("fault_component_taken_out_of_the_analysed_model");
                ctx.ev("DETACH c" + str(ci));
            } else if (s.op == "ATTACH" && detached[ci]) {
                ctx.begin(stepNo, "ATTACH", "");
                model->addComponent(comps[ci]);
                detached[ci] = false;
                ctx.ev("ATTACH c" + str(ci));
            }
        } else if (s.op == "PAR") {
            // two caller threads ask one question each; their graph walks are interleaved as the plan says
            if (vars.size() < 2) {
                continue;
            }
            size_t i = size_t(s.arg(0)) % vars.size(), j = size_t(s.arg(1)) % vars.size(), k = size_t(s.arg(2)) % vars.size(), l = size_t(s.arg(3)) % vars.size();
            if (i == j || k == l || vars[i] == nullptr || vars[j] == nullptr || vars[k] == nullptr || vars[l] == nullptr) {
                continue;
            }
            ctx.begin(stepNo, "PAR", "");
            auto reach = [&](size_t from, size_t to) {
                std::set<const Variable *> seen {vars[from].get()};
                std::vector<VariablePtr> todo {vars[from]};
                while (!todo.empty()) {
                    auto v = todo.back();
                    todo.pop_back();
                    for (size_t e = 0; e < v->equivalentVariableCount(); ++e) {
                        auto n = v->equivalentVariable(e);
                        if (n == vars[to]) {
                            return true;
                        }
                        if (n != nullptr && seen.insert(n.get()).second) {
                            todo.push_back(n);
                        }
                    }
                }
                return false;
            };
            bool want0 = reach(i, j), want1 = reach(k, l), got0 = false, got1 = false;
            bool viaModel = s.arg(5) != 0 && am != nullptr; // the two callers ask the analyser model (and share its cache)
            long switches = viaModel ? runInterleaved([&]() { got0 = am->areEquivalentVariables(vars[i], vars[j]); }, [&]() { got1 = am->areEquivalentVariables(vars[k], vars[l]); }, uint64_t(s.arg(4)))
                                     : runInterleaved([&]() { got0 = vars[i]->hasEquivalentVariable(vars[j], true); }, [&]() { got1 = vars[k]->hasEquivalentVariable(vars[l], true); }, uint64_t(s.arg(4)));
            if (viaModel) {
                ctx.count("two_callers_share_the_analyser_model_cache");
            }
            ctx.count("fault_two_caller_threads_interleaved");
            ctx.count("caller_thread_switches", switches);
            ctx.ev("PAR " + str(i) + "," + str(j) + " | " + str(k) + "," + str(l) + " -> " + str(got0) + str(got1) + " switches=" + str(switches));
            if (got0 != want0 || got1 != want1) {
                ctx.violate("C18", viaModel ? "wrong-answer-areEquivalentVariables" : "wrong-answer-hasEquivalentVariable", "two-callers-interleaved", "two caller threads asked hasEquivalentVariable(v" + str(i) + ", v" + str(j) + ") and (v" + str(k) + ", v" + str(l) + ") with their walks interleaved: answers " + str(got0) + " / " + str(got1) + ", the equivalence lists say " + str(want0) + " / " + str(want1));
                return;
            }
            ctx.nontrivial = true;
        } else if (s.op == "QF") {
            // Fault: an allocation fails (std::bad_alloc) somewhere inside one areEquivalentVariables() call; the caller
            // catches it and asks again - the failed call must not have left a wrong answer behind
            if (am == nullptr || vars.empty() || !simalloc::active()) {
                continue;
            }
            size_t i = size_t(s.arg(0)) % vars.size(), j = size_t(s.arg(1)) % vars.size();
            if (vars[i] == nullptr || vars[j] == nullptr) {
                continue;
            }
            ctx.begin(stepNo, "QF", "");
            bool threw = false, first = false;
            simalloc::failAllocation(uint64_t(1 + (s.arg(2) < 0 ? -s.arg(2) : s.arg(2)) % 12));
            try {
                first = am->areEquivalentVariables(vars[i], vars[j]);
            } catch (const std::bad_alloc &) {
                threw = true;
            }
            bool fired = simalloc::allocationFailureFired();
            simalloc::failAllocation(0);
            if (fired) {
                ctx.count("fault_allocation_failure_inside_a_query");
            }
            if (threw != fired && threw) {
                ctx.violate("C18", "harness-bad-alloc-without-fault", "", "std::bad_alloc although no allocation failure was injected");
                return;
            }
            bool again = am->areEquivalentVariables(vars[i], vars[j]), mirrored = am->areEquivalentVariables(vars[j], vars[i]);
            ctx.ev("QF " + str(i) + " " + str(j) + " threw=" + str(threw) + " -> " + str(again) + str(mirrored));
            if ((!threw && first != truth[i][j]) || again != truth[i][j] || mirrored != truth[i][j]) {
                ctx.violate("C18", "wrong-answer-areEquivalentVariables", threw ? "after-allocation-failure" : "", "areEquivalentVariables(v" + str(i) + ", v" + str(j) + ") " + (threw ? "failed with std::bad_alloc, then" : "") + " answered " + str(again) + " / mirrored " + str(mirrored) + ", the connection graph says " + str(bool(truth[i][j])));
                return;
            }
            ctx.nontrivial = true;
        } else if (s.op == "HX") {
            // hasEquivalentVariable() asked at any time (no analysis needed), judged against a search over the
            // equivalentVariable() lists as they are at this moment
            if (vars.empty()) {
                continue;
            }
            size_t i = size_t(s.arg(0)) % vars.size(), j = size_t(s.arg(1)) % vars.size();
            if (i == j || vars[i] == nullptr || vars[j] == nullptr) {
                continue;
            }
            ctx.begin(stepNo, "HX", "");
            std::set<const Variable *> seen {vars[i].get()};
            std::vector<VariablePtr> todo {vars[i]};
            bool expected = false;
            while (!todo.empty() && !expected) {
                auto v = todo.back();
                todo.pop_back();
                for (size_t k = 0; k < v->equivalentVariableCount(); ++k) {
                    auto e = v->equivalentVariable(k);
                    if (e == nullptr) {
                        continue;
                    }
                    if (e == vars[j]) {
                        expected = true;
                        break;
                    }
                    if (seen.insert(e.get()).second) {
                        todo.push_back(e);
                    }
                }
            }
            bool got = vars[i]->hasEquivalentVariable(vars[j], true);
            ctx.count("queries_variable_between_edits");
            ctx.ev("HX " + str(i) + " " + str(j) + " -> " + str(got));
            if (got != expected) {
                ctx.violate("C18", "wrong-answer-hasEquivalentVariable", "between-edits", "hasEquivalentVariable(v" + str(i) + ", v" + str(j) + ", true) returned " + str(got) + ", the equivalence lists say " + str(expected));
                return;
            }
            ctx.nontrivial = true;
        } else if (s.op == "Q" || s.op == "H") {
            if (am == nullptr || vars.empty()) {
                continue;
            }
            if (std::find(detached.begin(), detached.end(), true) != detached.end()) {
                ctx.count("queries_while_a_component_is_out_of_the_model");
            }
            size_t i = size_t(s.arg(0)) % vars.size(), j = size_t(s.arg(1)) % vars.size();
            if (vars[i] == nullptr || vars[j] == nullptr) {
                continue;
            }
            bool expected = truth[i][j];
            long before = obs.hitsOnNeverQueried;
            bool got;
            // arg 2: the question is asked from another caller thread (started and joined here: strictly one caller at a
            // time, so the run stays deterministic) - an answer must not depend on which thread asks
            bool otherThread = s.arg(2) != 0;
            if (s.op == "Q") {
                ctx.begin(stepNo, "Q", otherThread ? "other-thread" : "");
                auto ask = [&]() { got = am->areEquivalentVariables(vars[i], vars[j]); };
                if (otherThread) {
                    std::thread t(ask);
                    t.join();
                } else {
                    ask();
                }
                ctx.count("queries_analysermodel");
            } else {
                if (i == j) {
                    continue;
                }
                ctx.begin(stepNo, "H", otherThread ? "other-thread" : "");
                auto ask = [&]() { got = vars[i]->hasEquivalentVariable(vars[j], true); };
                if (otherThread) {
                    std::thread t(ask);
                    t.join();
                } else {
                    ask();
                }
                ctx.count("queries_variable");
            }
            if (otherThread) {
                ctx.count("fault_query_from_another_caller_thread");
            }
            ctx.ev(s.op + " " + str(i) + " " + str(j) + " -> " + str(got));
            if (got != expected) {
                std::string tag = (s.op == "Q" && obs.hitsOnNeverQueried > before) ? "cache-collision" : (s.op == "Q" && obs.hitsOnNeverQueried > 0 ? "after-cache-collision" : "");
                ctx.violate("C18", std::string("wrong-answer-") + (s.op == "Q" ? "areEquivalentVariables" : "hasEquivalentVariable"), tag,
                            s.op + "(v" + str(i) + ", v" + str(j) + ") returned " + str(got) + ", the connection graph says " + str(expected)
                                + (simalloc::active() ? " [addresses " + hex64(uintptr_t(vars[i].get())) + " " + hex64(uintptr_t(vars[j].get())) + "]" : ""));
                return;
            }
            ctx.nontrivial = true;
        }
        ctx.state(fnv(str(obs.pairs.size()) + ":" + str(obs.hits)));
    }
    ctx.count("cache_hit_on_never_queried_pair", obs.hitsOnNeverQueried);
    ctx.count("distinct_pairs_with_equal_key", obs.keyCollisions);
    ctx.count("cache_hits", obs.hits);
    ctx.count("cache_calls", obs.calls);
    ctx.count(std::string("policy_") + str(policy));
    if (simalloc::active() && policy != 0) {
        ctx.count(policy == 1 ? "fault_layout_reversed" : "fault_layout_shuffled");
    }
    if (plan.c("plantbase", 0) != 0 && plantOk) {
        if (plan.c("plantzone", 0) != 0) {
            ctx.count("fault_lattice_layout");
            ctx.count(obs.keyCollisions > 0 ? "lattice_layout_key_collisions_seen" : "lattice_layout_no_key_collision");
        } else {
            ctx.count(obs.keyCollisions > 0 ? "planted_collision_confirmed_by_real_key" : "planted_collision_not_confirmed");
        }
    }
    libcellml::verif::equivalenceCacheObserver = nullptr;
    gObs = nullptr;
}

std::vector<Plan> simplify(const Plan &p)
{
    std::vector<Plan> out;
    if (p.c("parsed", 0) != 0) {
        Plan q = p;
        q.cfg["parsed"] = 0;
        out.push_back(q);
    }
    if (p.c("plantbase", 0) == 0 && p.c("policy", 0) != 0) {
        Plan q = p;
        q.cfg["policy"] = 0;
        out.push_back(q);
    }
    return out;
}

} // namespace

void registerEquivEngine()
{
    Engine e;
    e.name = "equiv";
    e.flavour = "layout";
    e.generate = generate;
    e.execute = execute;
    e.simplify = simplify;
    e.timeoutS = 12;
    e.crashProperty = "C18";
    registerEngine(e);
}
