// Engine `annot` (C13): an annotator client and an editor client interleaved on one shared model.
// The scheduler decides how many edits land between setModel, lookups and assignments.
#include <algorithm>
#include <map>
#include <set>
#include <sstream>

#include <libcellml/module/libcellml>

#include "dump.h"
#include "kernel.h"
#include "modelgen.h"
#include "monitor.h"

using namespace libcellml;
using namespace sim;

namespace {

using T = CellmlElementType;

const T KINDS[] = {T::MODEL, T::ENCAPSULATION, T::UNITS, T::UNIT, T::IMPORT, T::COMPONENT, T::COMPONENT_REF, T::VARIABLE,
                   T::RESET, T::TEST_VALUE, T::RESET_VALUE, T::MAP_VARIABLES, T::CONNECTION};
const size_t NKINDS = sizeof KINDS / sizeof *KINDS;

struct Item
{
    T kind = T::UNDEFINED;
    std::string id;
    ModelPtr model;
    ComponentPtr comp;
    UnitsPtr units;
    size_t index = 0;
    VariablePtr v1, v2;
    ResetPtr reset;
    ImportSourcePtr imp;
    ComponentPtr c1, c2; // owning components for MAP_VARIABLES / CONNECTION

    std::string key() const
    {
        std::ostringstream o;
        o << int(kind) << ":";
        switch (kind) {
        case T::MODEL:
        case T::ENCAPSULATION:
            o << model.get();
            break;
        case T::UNITS:
            o << units.get();
            break;
        case T::UNIT:
            o << units.get() << "#" << index;
            break;
        case T::IMPORT:
            o << imp.get();
            break;
        case T::COMPONENT:
        case T::COMPONENT_REF:
            o << comp.get();
            break;
        case T::VARIABLE:
            o << v1.get();
            break;
        case T::RESET:
        case T::TEST_VALUE:
        case T::RESET_VALUE:
            o << reset.get();
            break;
        case T::MAP_VARIABLES: {
            const void *a = v1.get(), *b = v2.get();
            if (b < a) {
                std::swap(a, b);
            }
            o << a << "~" << b;
            break;
        }
        case T::CONNECTION: {
            const void *a = c1.get(), *b = c2.get();
            if (b < a) {
                std::swap(a, b);
            }
            o << a << "~" << b;
            break;
        }
        default:
            break;
        }
        return o.str();
    }
    std::string describe() const
    {
        std::string s = cellmlElementTypeAsString(kind);
        if (comp) {
            s += " " + comp->name();
        }
        if (units) {
            s += " " + units->name() + (kind == T::UNIT ? "#" + str(index) : "");
        }
        if (v1) {
            s += " " + v1->name();
        }
        if (v2) {
            s += "~" + v2->name();
        }
        if (imp) {
            s += " " + imp->url();
        }
        return s;
    }
};

ComponentPtr ownerOf(const VariablePtr &v)
{
    return v ? std::dynamic_pointer_cast<Component>(v->parent()) : nullptr;
}

// Independent traversal of the model: every item that can carry an id, with the id it carries now.
std::vector<Item> collect(const ModelPtr &model)
{
    std::vector<Item> out;
    if (model == nullptr) {
        return out;
    }
    Item m;
    m.kind = T::MODEL;
    m.model = model;
    m.id = model->id();
    out.push_back(m);
    m.kind = T::ENCAPSULATION;
    m.id = model->encapsulationId();
    out.push_back(m);
    std::set<const ImportSource *> seenImports;
    auto addImport = [&](const ImportSourcePtr &is) {
        if (is != nullptr && seenImports.insert(is.get()).second) {
            Item i;
            i.kind = T::IMPORT;
            i.imp = is;
            i.id = is->id();
            out.push_back(i);
        }
    };
    for (size_t u = 0; u < model->unitsCount(); ++u) {
        auto units = model->units(u);
        Item i;
        i.kind = T::UNITS;
        i.units = units;
        i.id = units->id();
        out.push_back(i);
        for (size_t k = 0; k < units->unitCount(); ++k) {
            Item j;
            j.kind = T::UNIT;
            j.units = units;
            j.index = k;
            j.id = units->unitId(k);
            out.push_back(j);
        }
        if (units->isImport()) {
            addImport(units->importSource());
        }
    }
    std::vector<ComponentPtr> comps;
    allComponents(model, comps);
    std::set<std::string> seenPairs, seenConnections;
    for (auto &c : comps) {
        Item i;
        i.kind = T::COMPONENT;
        i.comp = c;
        i.id = c->id();
        out.push_back(i);
        i.kind = T::COMPONENT_REF;
        i.id = c->encapsulationId();
        out.push_back(i);
        if (c->isImport()) {
            addImport(c->importSource());
        }
        for (size_t v = 0; v < c->variableCount(); ++v) {
            Item j;
            j.kind = T::VARIABLE;
            j.v1 = c->variable(v);
            j.id = j.v1->id();
            out.push_back(j);
        }
        for (size_t r = 0; r < c->resetCount(); ++r) {
            Item j;
            j.reset = c->reset(r);
            j.kind = T::RESET;
            j.id = j.reset->id();
            out.push_back(j);
            j.kind = T::TEST_VALUE;
            j.id = j.reset->testValueId();
            out.push_back(j);
            j.kind = T::RESET_VALUE;
            j.id = j.reset->resetValueId();
            out.push_back(j);
        }
    }
    for (auto &c : comps) {
        for (size_t v = 0; v < c->variableCount(); ++v) {
            auto v1 = c->variable(v);
            for (size_t e = 0; e < v1->equivalentVariableCount(); ++e) {
                auto v2 = v1->equivalentVariable(e);
                if (v2 == nullptr) {
                    continue;
                }
                Item j;
                j.kind = T::MAP_VARIABLES;
                j.v1 = v1;
                j.v2 = v2;
                j.c1 = c;
                j.c2 = ownerOf(v2);
                j.id = Variable::equivalenceMappingId(v1, v2);
                if (seenPairs.insert(j.key()).second) {
                    out.push_back(j);
                }
                j.kind = T::CONNECTION;
                j.id = Variable::equivalenceConnectionId(v1, v2);
                // one connection per pair of components and id (a CellML connection element)
                if (seenConnections.insert(j.key() + "|" + j.id).second) {
                    out.push_back(j);
                }
            }
        }
    }
    return out;
}

std::multiset<std::string> allIds(const std::vector<Item> &items)
{
    std::multiset<std::string> s;
    for (auto &i : items) {
        if (!i.id.empty()) {
            s.insert(i.id);
        }
    }
    return s;
}

bool inHierarchy(const ComponentPtr &c)
{
    return std::dynamic_pointer_cast<Model>(c->parent()) == nullptr || c->componentCount() > 0;
}

// Does `kind` belong to what an assign call with `requested` promises to cover?
bool covered(T requested, bool all, const Item &i)
{
    if (i.kind == T::COMPONENT_REF && !inHierarchy(i.comp)) {
        return false; // a component reference exists only for components in an encapsulation hierarchy
    }
    return all || i.kind == requested;
}

struct World
{
    ModelPtr model;
    ModelPtr alt; // a second model object with the same content and ids (the same document loaded twice)
    AnnotatorPtr annotator;
    bool annotatorHasModel = false;
    bool modelDropped = false;
    long editsSinceRefresh = 0; // edits since the annotator last rebuilt its index (setModel or a lookup)
    long idEditsSinceRefresh = 0;
    long newUnique = 0;
    long maxAutoSeen = 0xb4da54;
};

std::string hexId(long v)
{
    std::ostringstream o;
    o << std::hex << v;
    return o.str();
}

void noteAuto(World &w, const std::string &id)
{
    if (id.size() == 6 && id.find_first_not_of("0123456789abcdef") == std::string::npos) {
        long v = strtol(id.c_str(), nullptr, 16);
        w.maxAutoSeen = std::max(w.maxAutoSeen, v);
    }
}

void setItemId(const Item &i, const std::string &id)
{
    switch (i.kind) {
    case T::MODEL: i.model->setId(id); break;
    case T::ENCAPSULATION: i.model->setEncapsulationId(id); break;
    case T::UNITS: i.units->setId(id); break;
    case T::UNIT: i.units->setUnitId(i.index, id); break;
    case T::IMPORT: i.imp->setId(id); break;
    case T::COMPONENT: i.comp->setId(id); break;
    case T::COMPONENT_REF: i.comp->setEncapsulationId(id); break;
    case T::VARIABLE: i.v1->setId(id); break;
    case T::RESET: i.reset->setId(id); break;
    case T::TEST_VALUE: i.reset->setTestValueId(id); break;
    case T::RESET_VALUE: i.reset->setResetValueId(id); break;
    case T::MAP_VARIABLES: Variable::setEquivalenceMappingId(i.v1, i.v2, id); break;
    case T::CONNECTION: Variable::setEquivalenceConnectionId(i.v1, i.v2, id); break;
    default: break;
    }
}

bool sameObject(const AnyCellmlElementPtr &a, const Item &i)
{
    if (a == nullptr || a->type() != i.kind) {
        return false;
    }
    switch (i.kind) {
    case T::MODEL:
    case T::ENCAPSULATION: return a->model() == i.model;
    case T::UNITS: return a->units() == i.units;
    case T::UNIT: return a->unitsItem() != nullptr && a->unitsItem()->units() == i.units && a->unitsItem()->index() == i.index;
    case T::IMPORT: return a->importSource() == i.imp;
    case T::COMPONENT:
    case T::COMPONENT_REF: return a->component() == i.comp;
    case T::VARIABLE: return a->variable() == i.v1;
    case T::RESET:
    case T::TEST_VALUE:
    case T::RESET_VALUE: return a->reset() == i.reset;
    case T::MAP_VARIABLES: {
        auto p = a->variablePair();
        return p != nullptr && ((p->variable1() == i.v1 && p->variable2() == i.v2) || (p->variable1() == i.v2 && p->variable2() == i.v1));
    }
    case T::CONNECTION: {
        auto p = a->variablePair();
        if (p == nullptr) {
            return false;
        }
        auto a1 = ownerOf(p->variable1()), a2 = ownerOf(p->variable2());
        return (a1 == i.c1 && a2 == i.c2) || (a1 == i.c2 && a2 == i.c1);
    }
    default: return false;
    }
}

std::string staleTag(const World &w)
{
    return w.editsSinceRefresh > 0 ? (w.idEditsSinceRefresh > 0 ? "ids-edited-since-index-refresh" : "model-edited-since-index-refresh") : "index-fresh";
}

// ---------------------------------------------------------------- plan generation

Step mk(int task, const std::string &op, std::vector<long> a = {})
{
    Step s;
    s.task = task;
    s.op = op;
    s.a = std::move(a);
    return s;
}

Plan generate(Rng &rng, const Opts &opts, uint64_t)
{
    Plan p;
    p.engine = "annot";
    p.cfg["modelseed"] = long(rng.below(1u << 30));
    p.cfg["idmode"] = opts.f("idmode", long(rng.below(5)));
    p.cfg["maxcomps"] = opts.f("maxcomps", rng.range(1, 5));
    p.cfg["connmode"] = opts.f("connmode", rng.chance(1, 2) ? 1 : 0); // 1: connection ids kept consistent per pair of components
    bool editor = opts.f("editor", rng.chance(4, 5) ? 1 : 0) != 0;
    bool drop = opts.f("drop", rng.chance(1, 8) ? 1 : 0) != 0;
    long n = rng.range(4, opts.tier == "thorough" ? 30 : 22);
    p.steps.push_back(mk(0, "SETMODEL"));
    for (long i = 0; i < n; ++i) {
        unsigned r = unsigned(rng.below(100));
        if (editor && r < 35) {
            unsigned e = unsigned(rng.below(100));
            if (e < 55) {
                p.steps.push_back(mk(1, "E_SETID", {long(rng.below(NKINDS)), long(rng.below(16)), long(rng.below(5))}));
            } else if (e < 65) {
                p.steps.push_back(mk(1, "E_ADDVAR", {long(rng.below(8)), long(rng.below(4))}));
            } else if (e < 73) {
                p.steps.push_back(mk(1, "E_ADDCOMP", {long(rng.below(8)), long(rng.below(4))}));
            } else if (e < 81) {
                p.steps.push_back(mk(1, "E_ADDEQ", {long(rng.below(16)), long(rng.below(16)), long(rng.below(4))}));
            } else if (e < 85) {
                p.steps.push_back(mk(1, "E_CUTEQ", {long(rng.below(16)), long(rng.below(3))}));
            } else if (e < 88) {
                p.steps.push_back(mk(1, "E_REMOVE", {long(rng.below(3)), long(rng.below(8))}));
            } else if (e < 94) {
                p.steps.push_back(mk(1, "E_ADDUNITS", {long(rng.below(4))}));
            } else {
                p.steps.push_back(mk(1, "E_ADDRESET", {long(rng.below(8)), long(rng.below(4))}));
            }
        } else if (r < 50) {
            p.steps.push_back(mk(0, "LOOKUP", {long(rng.below(1000))}));
        } else if (r < 62) {
            p.steps.push_back(mk(0, "ASSIGN_ALL", {long(rng.below(2))}));
        } else if (r < 76) {
            p.steps.push_back(mk(0, "ASSIGN_TYPE", {long(rng.below(NKINDS + 2))}));
        } else if (r < 88) {
            p.steps.push_back(mk(0, "ASSIGN_ITEM", {long(rng.below(NKINDS)), long(rng.below(16)), long(rng.below(3))}));
        } else if (r < 90) {
            p.steps.push_back(mk(0, "CLEAR", {long(rng.below(2)), long(rng.below(3) == 0)}));
        } else if (r < 95) {
            p.steps.push_back(mk(0, "PRINT_AUTO"));
        } else if (r < 98) {
            p.steps.push_back(mk(0, "SWAPMODEL", {long(rng.below(1000)), long(rng.below(3) == 0)}));
        } else {
            p.steps.push_back(mk(0, "SETMODEL"));
        }
    }
    if (drop) {
        p.steps.push_back(mk(1, "DROP"));
        p.steps.push_back(mk(0, "LOOKUP", {1}));
        p.steps.push_back(mk(0, "ASSIGN_ALL", {0}));
        p.steps.push_back(mk(0, "ASSIGN_TYPE", {5}));
    } else {
        p.steps.push_back(mk(0, "ASSIGN_ALL", {0}));
        p.steps.push_back(mk(0, "LOOKUP", {7}));
    }
    return p;
}

// ---------------------------------------------------------------- execution

// Compare the annotator's view with the independent traversal.
bool checkLookups(Ctx &ctx, World &w, long salt)
{
    auto items = collect(w.model);
    auto present = allIds(items);
    std::string tag = staleTag(w);
    // The first question after whatever happened before decides whether the index is refreshed in time: it is not always
    // ids() - any lookup may come first.
    if (!present.empty() && salt % 5 != 0) {
        std::set<std::string> distinct(present.begin(), present.end());
        auto it0 = distinct.begin();
        std::advance(it0, long(size_t(salt / 5) % distinct.size()));
        const std::string id0 = *it0;
        size_t n0 = present.count(id0);
        ctx.count("annot_first_question_is_not_ids");
        switch (salt % 5) {
        case 1: {
            auto found = w.annotator->items(id0);
            bool carried = true;
            for (auto &f : found) {
                bool hit = false;
                for (auto &i : items) {
                    hit = hit || (i.id == id0 && sameObject(f, i));
                }
                carried = carried && hit;
            }
            if (found.size() != n0 || !carried) {
                ctx.violate("C13", "items-disagree-with-traversal", tag + ",first-question", "items('" + id0 + "') asked first has " + str(found.size()) + " entries" + (carried ? "" : ", not all of them carrying that id") + "; the traversal finds " + str(n0));
                return false;
            }
            break;
        }
        case 2:
            if (w.annotator->itemCount(id0) != n0) {
                ctx.violate("C13", "item-count-disagrees-with-traversal", tag + ",first-question", "itemCount('" + id0 + "') asked first = " + str(w.annotator->itemCount(id0)) + ", the traversal finds " + str(n0));
                return false;
            }
            break;
        case 3:
            if (w.annotator->isUnique(id0) != (n0 == 1)) {
                ctx.violate("C13", "is-unique-disagrees-with-traversal", tag + ",first-question", "isUnique('" + id0 + "') asked first disagrees with the traversal (" + str(n0) + " occurrences)");
                return false;
            }
            break;
        default: {
            auto dups0 = w.annotator->duplicateIds();
            size_t expectDups0 = 0;
            for (auto &d : distinct) {
                expectDups0 += present.count(d) > 1 ? 1 : 0;
            }
            if (dups0.size() != expectDups0) {
                ctx.violate("C13", "duplicate-ids-disagree-with-traversal", tag + ",first-question", "duplicateIds() asked first returned " + str(dups0.size()) + " ids, the traversal finds " + str(expectDups0));
                return false;
            }
        }
        }
    }
    // ids()
    auto ids = w.annotator->ids();
    checkLogger(ctx, w.annotator, "annotator", "ids", false);
    // the annotator has now (supposedly) refreshed its index
    std::set<std::string> expectIds(present.begin(), present.end());
    std::set<std::string> gotIds(ids.begin(), ids.end());
    if (gotIds != expectIds || ids.size() != gotIds.size()) {
        std::string diff;
        for (auto &s : expectIds) {
            if (gotIds.count(s) == 0) {
                diff += " missing:" + s;
            }
        }
        for (auto &s : gotIds) {
            if (expectIds.count(s) == 0) {
                diff += " extra:" + s;
            }
        }
        ctx.violate("C13", "ids-disagree-with-traversal", tag, "Annotator::ids() differs from an independent traversal:" + diff);
        return false;
    }
    auto dups = w.annotator->duplicateIds();
    std::set<std::string> expectDups;
    for (auto &s : expectIds) {
        if (present.count(s) > 1) {
            expectDups.insert(s);
        }
    }
    if (std::set<std::string>(dups.begin(), dups.end()) != expectDups || dups.size() != expectDups.size()) {
        ctx.violate("C13", "duplicate-ids-disagree-with-traversal", tag, "Annotator::duplicateIds() returned " + str(dups.size()) + " ids, the traversal finds " + str(expectDups.size()));
        return false;
    }
    ctx.count("annot_lookup_batteries");
    // per-id checks on a seeded subset
    size_t k = 0;
    for (auto &id : expectIds) {
        if (((k++ + size_t(salt)) % 3) != 0 && expectIds.size() > 6) {
            continue;
        }
        size_t n = present.count(id);
        if (w.annotator->itemCount(id) != n) {
            ctx.violate("C13", "item-count-disagrees-with-traversal", tag, "itemCount('" + id + "') = " + str(w.annotator->itemCount(id)) + ", the traversal finds " + str(n));
            return false;
        }
        if (w.annotator->isUnique(id) != (n == 1)) {
            ctx.violate("C13", "is-unique-disagrees-with-traversal", tag, "isUnique('" + id + "') disagrees with the traversal (" + str(n) + " occurrences)");
            return false;
        }
        auto found = w.annotator->items(id);
        if (found.size() != n) {
            ctx.violate("C13", "items-disagree-with-traversal", tag, "items('" + id + "') has " + str(found.size()) + " entries, the traversal finds " + str(n));
            return false;
        }
        auto one = w.annotator->item(id);
        checkLogger(ctx, w.annotator, "annotator", "item", one == nullptr || one->type() == T::UNDEFINED);
        if (n == 1) {
            const Item *carrier = nullptr;
            for (auto &i : items) {
                if (i.id == id) {
                    carrier = &i;
                }
            }
            if (!sameObject(one, *carrier)) {
                ctx.violate("C13", "item-is-not-the-carrier", tag, "item('" + id + "') does not return the " + carrier->describe() + " that carries it (got type " + cellmlElementTypeAsString(one ? one->type() : T::UNDEFINED) + ")");
                return false;
            }
            // typed lookup of the right kind returns the object, of a wrong kind returns null
            bool typedOk = true;
            switch (carrier->kind) {
            case T::COMPONENT: typedOk = w.annotator->component(id) == carrier->comp && w.annotator->variable(id) == nullptr; break;
            case T::COMPONENT_REF: typedOk = w.annotator->componentEncapsulation(id) == carrier->comp; break;
            case T::VARIABLE: typedOk = w.annotator->variable(id) == carrier->v1 && w.annotator->units(id) == nullptr; break;
            case T::UNITS: typedOk = w.annotator->units(id) == carrier->units && w.annotator->reset(id) == nullptr; break;
            case T::MODEL: typedOk = w.annotator->model(id) == carrier->model; break;
            case T::ENCAPSULATION: typedOk = w.annotator->encapsulation(id) == carrier->model; break;
            case T::IMPORT: typedOk = w.annotator->importSource(id) == carrier->imp; break;
            case T::RESET: typedOk = w.annotator->reset(id) == carrier->reset; break;
            case T::TEST_VALUE: typedOk = w.annotator->testValue(id) == carrier->reset; break;
            case T::RESET_VALUE: typedOk = w.annotator->resetValue(id) == carrier->reset; break;
            case T::UNIT: {
                auto ui = w.annotator->unitsItem(id);
                typedOk = ui != nullptr && ui->units() == carrier->units && ui->index() == carrier->index;
                break;
            }
            case T::MAP_VARIABLES: typedOk = w.annotator->mapVariables(id) != nullptr; break;
            case T::CONNECTION: typedOk = w.annotator->connection(id) != nullptr; break;
            default: break;
            }
            if (!typedOk) {
                ctx.violate("C13", "typed-lookup-wrong", tag, "the typed lookup for '" + id + "' (" + carrier->describe() + ") does not return the carrier / returns an object for a wrong kind");
                return false;
            }
        } else if (one == nullptr || one->type() != T::UNDEFINED) {
            ctx.violate("C13", "item-of-duplicate-id-not-empty", tag, "item('" + id + "') returned an item although the id occurs " + str(n) + " times");
            return false;
        }
        ctx.count("annot_ids_looked_up");
    }
    // an id that does not exist
    auto none = w.annotator->item("no_such_id_" + str(salt));
    if (none == nullptr || none->type() != T::UNDEFINED) {
        ctx.violate("C13", "item-of-unknown-id-not-empty", tag, "item() of an unknown id returned an item");
        return false;
    }
    checkLogger(ctx, w.annotator, "annotator", "item(unknown id)", true);
    w.editsSinceRefresh = 0;
    w.idEditsSinceRefresh = 0;
    return true;
}

// The assignment contract: complete for the requested kinds, existing ids unchanged, new ids new and distinct.
bool checkAssign(Ctx &ctx, World &w, const std::vector<Item> &before, T requested, bool all, const std::string &what, const Item *replaced)
{
    std::string tag = staleTag(w) + "," + what;
    auto after = collect(w.model);
    auto present = allIds(before);
    std::map<std::string, std::string> beforeById;
    for (auto &i : before) {
        beforeById[i.key() + (i.kind == T::CONNECTION ? "|" + i.id : "")] = i.id;
    }
    std::multiset<std::string> fresh;
    for (auto &a : after) {
        if (a.kind == T::CONNECTION) {
            continue; // handled below, per pair of variables
        }
        auto it = beforeById.find(a.key());
        if (it == beforeById.end()) {
            continue; // cannot happen: assignment does not create items
        }
        bool isReplaced = replaced != nullptr && replaced->kind == a.kind && replaced->key() == a.key();
        if (!it->second.empty() && !isReplaced) {
            if (a.id != it->second) {
                ctx.violate("C13", "existing-id-changed", tag, "the id of " + a.describe() + " was '" + it->second + "' and is now '" + a.id + "'");
                return false;
            }
            continue;
        }
        if (a.id.empty()) {
            if (replaced == nullptr && covered(requested, all, a)) {
                ctx.violate("C13", "item-left-without-id", tag, a.describe() + " still has no id after " + what);
                return false;
            }
            continue;
        }
        if (isReplaced && a.id == it->second) {
            continue; // assignId(item) that failed (for instance item not owned): nothing new
        }
        fresh.insert(a.id);
        noteAuto(w, a.id);
        if (present.count(a.id) != 0) {
            ctx.violate("C13", "assigned-id-already-in-use", tag, a.describe() + " was given '" + a.id + "', which was already present in the model when " + what + " was called");
            return false;
        }
    }
    // connections: one entry per pair of components and id
    std::map<std::string, std::string> connIdBefore;
    for (auto &b : before) {
        if (b.kind == T::CONNECTION) {
            // several entries per component pair are possible (one per id); remember all ids of the pair
            connIdBefore[b.key()] += "\n" + b.id;
        }
    }
    std::set<std::string> freshConn;
    for (auto &a : after) {
        if (a.kind != T::CONNECTION) {
            continue;
        }
        bool isReplaced = replaced != nullptr && replaced->kind == T::CONNECTION && replaced->key() == a.key();
        std::string olds = connIdBefore[a.key()];
        bool existed = !a.id.empty() && olds.find("\n" + a.id) != std::string::npos;
        if (a.id.empty()) {
            if (replaced == nullptr && covered(requested, all, a)) {
                ctx.violate("C13", "item-left-without-id", tag, a.describe() + " still has no connection id after " + what);
                return false;
            }
            continue;
        }
        if (existed) {
            continue;
        }
        // a connection id that was not on this pair of components before
        bool hadNonEmpty = false;
        std::istringstream is(olds);
        std::string line;
        while (std::getline(is, line)) {
            hadNonEmpty = hadNonEmpty || !line.empty();
        }
        if (hadNonEmpty && !isReplaced) {
            // only a violation when an id disappeared: every old id must still be there
            std::istringstream is2(olds);
            while (std::getline(is2, line)) {
                if (line.empty()) {
                    continue;
                }
                bool still = false;
                for (auto &x : after) {
                    still = still || (x.kind == T::CONNECTION && x.key() == a.key() && x.id == line);
                }
                if (!still) {
                    ctx.violate("C13", "existing-id-changed", tag, "connection id '" + line + "' of " + a.describe() + " was replaced by '" + a.id + "'");
                    return false;
                }
            }
        }
        if (freshConn.insert(a.key() + "|" + a.id).second) {
            fresh.insert(a.id);
            noteAuto(w, a.id);
            if (present.count(a.id) != 0) {
                ctx.violate("C13", "assigned-id-already-in-use", tag, a.describe() + " was given connection id '" + a.id + "', which was already present in the model when " + what + " was called");
                return false;
            }
        }
    }
    for (auto &f : fresh) {
        if (fresh.count(f) > 1) {
            ctx.violate("C13", "assigned-ids-not-distinct", tag, "the id '" + f + "' was handed out " + str(fresh.count(f)) + " times by one " + what);
            return false;
        }
    }
    ctx.count("annot_ids_assigned", long(fresh.size()));
    if (!fresh.empty()) {
        ctx.nontrivial = true;
        if (w.editsSinceRefresh > 0) {
            ctx.count("annot_assign_after_unrefreshed_edit");
        }
    }
    return true;
}

void execute(const Plan &plan, Ctx &ctx)
{
    World w;
    Rng mr(mixSeed(uint64_t(plan.c("modelseed", 1)), "annot-model", 0));
    GenOpts go;
    go.idMode = plan.c("idmode", 0);
    go.maxComps = plan.c("maxcomps", 4);
    go.consistentConnections = plan.c("connmode", 1) != 0;
    w.model = genModel(mr, go);
    {
        Rng mr2(mixSeed(uint64_t(plan.c("modelseed", 1)), "annot-model", 0));
        w.alt = genModel(mr2, go);
    }
    w.annotator = Annotator::create();
    for (auto &i : collect(w.model)) {
        noteAuto(w, i.id);
    }
    int stepNo = -1;
    for (auto &s : plan.steps) {
        ++stepNo;
        std::vector<ComponentPtr> comps;
        if (w.model != nullptr) {
            allComponents(w.model, comps);
        }
        // ---------------- editor
        if (s.op.compare(0, 2, "E_") == 0 || s.op == "DROP") {
            if (w.model == nullptr) {
                continue;
            }
            ctx.begin(stepNo, s.op, "");
            auto items = collect(w.model);
            if (s.op == "E_SETID") {
                T kind = KINDS[size_t(s.arg(0)) % NKINDS];
                std::vector<const Item *> ofKind;
                for (auto &i : items) {
                    if (i.kind == kind) {
                        ofKind.push_back(&i);
                    }
                }
                if (ofKind.empty()) {
                    continue;
                }
                const Item &it = *ofKind[size_t(s.arg(1)) % ofKind.size()];
                std::string id;
                switch (((s.arg(2) % 5) + 5) % 5) {
                case 0: id = ""; break;
                case 1: id = "edit_" + str(++w.newUnique); break;
                case 2: {
                    auto present = allIds(items);
                    if (present.empty()) {
                        id = "edit_" + str(++w.newUnique);
                    } else {
                        auto p = present.begin();
                        std::advance(p, long(size_t(s.arg(1)) % present.size()));
                        id = *p;
                    }
                    break;
                }
                case 3: id = hexId(w.maxAutoSeen + 1); break; // exactly the next id the annotator would hand out
                default: id = hexId(w.maxAutoSeen + 2); break;
                }
                if (it.id == id) {
                    continue;
                }
                setItemId(it, id);
                noteAuto(w, id);
                ++w.editsSinceRefresh;
                ++w.idEditsSinceRefresh;
                ctx.count("fault_editor_changed_id_behind_annotator");
                if (((s.arg(2) % 5) + 5) % 5 >= 3) {
                    ctx.count("fault_editor_planted_next_auto_id");
                }
                ctx.ev("E_SETID " + it.describe() + " := '" + id + "'");
            } else if (s.op == "E_ADDVAR") {
                if (comps.empty()) {
                    continue;
                }
                auto c = comps[size_t(s.arg(0)) % comps.size()];
                auto v = Variable::create("ev" + str(++w.newUnique));
                v->setUnits("second");
                if (s.arg(1) % 2 != 0) {
                    v->setId("edit_" + str(++w.newUnique));
                }
                c->addVariable(v);
                ++w.editsSinceRefresh;
                ctx.count("fault_editor_structural_edit");
                ctx.ev("E_ADDVAR " + c->name());
            } else if (s.op == "E_ADDCOMP") {
                auto c = Component::create("ec" + str(++w.newUnique));
                if (s.arg(1) % 2 != 0) {
                    c->setId("edit_" + str(++w.newUnique));
                }
                if (!comps.empty() && s.arg(1) % 4 < 2) {
                    comps[size_t(s.arg(0)) % comps.size()]->addComponent(c);
                } else {
                    w.model->addComponent(c);
                }
                ++w.editsSinceRefresh;
                ctx.count("fault_editor_structural_edit");
                ctx.ev("E_ADDCOMP");
            } else if (s.op == "E_ADDEQ") {
                std::vector<VariablePtr> vars;
                for (auto &c : comps) {
                    for (size_t i = 0; i < c->variableCount(); ++i) {
                        vars.push_back(c->variable(i));
                    }
                }
                if (vars.size() < 2) {
                    continue;
                }
                auto a = vars[size_t(s.arg(0)) % vars.size()], b = vars[size_t(s.arg(1)) % vars.size()];
                if (a == b || a->parent() == b->parent() || wouldJoinSiblings(a, b)) {
                    continue;
                }
                std::string existing = connectionIdBetween(a, b);
                Variable::addEquivalence(a, b);
                if (plan.c("connmode", 1) != 0 && !existing.empty()) {
                    Variable::setEquivalenceConnectionId(a, b, existing);
                }
                if (s.arg(2) % 2 != 0) {
                    Variable::setEquivalenceMappingId(a, b, "edit_" + str(++w.newUnique));
                    ++w.idEditsSinceRefresh;
                }
                if (s.arg(2) % 4 >= 2 && Variable::equivalenceConnectionId(a, b).empty()) {
                    Variable::setEquivalenceConnectionId(a, b, "edit_" + str(++w.newUnique));
                    ++w.idEditsSinceRefresh;
                }
                ++w.editsSinceRefresh;
                ctx.count("fault_editor_structural_edit");
                ctx.ev("E_ADDEQ " + a->name() + " " + b->name());
            } else if (s.op == "E_CUTEQ") {
                // equivalences are cut: one of them, all of a variable's, or all of them followed by making the same
                // equivalences again (which come back without identifiers)
                std::vector<VariablePtr> vars;
                for (auto &c : comps) {
                    for (size_t i = 0; i < c->variableCount(); ++i) {
                        if (c->variable(i)->equivalentVariableCount() > 0) {
                            vars.push_back(c->variable(i));
                        }
                    }
                }
                if (vars.empty()) {
                    continue;
                }
                auto a = vars[size_t(s.arg(0)) % vars.size()];
                std::vector<VariablePtr> partners;
                for (size_t i = 0; i < a->equivalentVariableCount(); ++i) {
                    partners.push_back(a->equivalentVariable(i));
                }
                switch (((s.arg(1) % 3) + 3) % 3) {
                case 0:
                    Variable::removeEquivalence(a, partners[0]);
                    break;
                case 1:
                    a->removeAllEquivalences();
                    break;
                default:
                    a->removeAllEquivalences();
                    for (auto &b : partners) {
                        if (b != nullptr) {
                            Variable::addEquivalence(a, b);
                        }
                    }
                }
                ++w.editsSinceRefresh;
                ++w.idEditsSinceRefresh;
                ctx.count("fault_editor_cuts_equivalences");
                ctx.ev("E_CUTEQ " + a->name() + " mode " + str(s.arg(1) % 3));
            } else if (s.op == "E_REMOVE") {
                if (comps.empty()) {
                    continue;
                }
                auto c = comps[size_t(s.arg(1)) % comps.size()];
                switch (((s.arg(0) % 3) + 3) % 3) {
                case 0:
                    if (c->variableCount() > 0) {
                        c->removeVariable(size_t(0));
                    }
                    break;
                case 1:
                    if (c->resetCount() > 0) {
                        c->removeReset(size_t(0));
                    }
                    break;
                default: {
                    auto parent = std::dynamic_pointer_cast<ComponentEntity>(c->parent());
                    if (parent != nullptr && comps.size() > 1) {
                        parent->removeComponent(c);
                    }
                }
                }
                ++w.editsSinceRefresh;
                ctx.count("fault_editor_structural_edit");
                ctx.ev("E_REMOVE");
            } else if (s.op == "E_ADDUNITS") {
                auto u = Units::create("eu" + str(++w.newUnique));
                u->addUnit("second", "", 1.0, 1.0, s.arg(0) % 2 != 0 ? "edit_" + str(++w.newUnique) : "");
                if (s.arg(0) % 4 >= 2) {
                    u->setId("edit_" + str(++w.newUnique));
                }
                w.model->addUnits(u);
                ++w.editsSinceRefresh;
                ctx.count("fault_editor_structural_edit");
                ctx.ev("E_ADDUNITS");
            } else if (s.op == "E_ADDRESET") {
                if (comps.empty()) {
                    continue;
                }
                auto c = comps[size_t(s.arg(0)) % comps.size()];
                auto r = Reset::create(int(s.arg(1)));
                if (c->variableCount() > 0) {
                    r->setVariable(c->variable(0));
                    r->setTestVariable(c->variable(0));
                }
                if (s.arg(1) % 2 != 0) {
                    r->setTestValueId("edit_" + str(++w.newUnique));
                }
                c->addReset(r);
                ++w.editsSinceRefresh;
                ctx.count("fault_editor_structural_edit");
                ctx.ev("E_ADDRESET");
            } else if (s.op == "DROP") {
                items.clear();
                comps.clear();
                w.model = nullptr;
                w.modelDropped = true;
                ctx.count("fault_model_destroyed_under_annotator");
                ctx.ev("DROP");
            }
            continue;
        }
        // ---------------- annotator client
        ctx.begin(stepNo, s.op, w.model == nullptr ? "model-destroyed" : staleTag(w));
        if (w.model == nullptr) {
            // the owner is gone: every call must fail cleanly, with an issue
            if (s.op == "LOOKUP") {
                auto ids = w.annotator->ids();
                auto it = w.annotator->item("anything");
                bool failed = it == nullptr || it->type() == T::UNDEFINED;
                ctx.ev("LOOKUP after drop ids=" + str(ids.size()));
                if (w.annotatorHasModel && (!ids.empty() || !failed || w.annotator->hasModel())) {
                    ctx.violate("C13", "lookup-after-model-destroyed", "model-destroyed", "lookups on an annotator whose model was destroyed still return items");
                    return;
                }
                checkLogger(ctx, w.annotator, "annotator", "item(model destroyed)", true);
            } else if (s.op == "ASSIGN_ALL") {
                bool r = w.annotator->assignAllIds();
                ctx.ev("ASSIGN_ALL after drop -> " + str(r));
                if (r) {
                    ctx.violate("C13", "assign-after-model-destroyed", "model-destroyed", "assignAllIds() returned true without a model");
                    return;
                }
                checkLogger(ctx, w.annotator, "annotator", "assignAllIds(model destroyed)", true);
            } else if (s.op == "ASSIGN_TYPE") {
                bool r = w.annotator->assignIds(KINDS[size_t(s.arg(0)) % NKINDS]);
                ctx.ev("ASSIGN_TYPE after drop -> " + str(r));
                if (r) {
                    ctx.violate("C13", "assign-after-model-destroyed", "model-destroyed", "assignIds() returned true without a model");
                    return;
                }
                checkLogger(ctx, w.annotator, "annotator", "assignIds(model destroyed)", true);
            } else if (s.op == "CLEAR") {
                w.annotator->clearAllIds();
                checkLogger(ctx, w.annotator, "annotator", "clearAllIds(model destroyed)", true);
            }
            continue;
        }
        if (s.op == "SWAPMODEL") {
            // the annotator is handed another model object (which may have exactly the same ids)
            if (w.alt == nullptr) {
                continue;
            }
            std::swap(w.model, w.alt);
            if (s.arg(1) != 0) {
                // handed over through the overload that takes the model along: same effect on what the annotator works with
                w.annotator->assignAllIds(w.model);
                ctx.count("annotator_given_another_model_through_assignAllIds");
            } else {
                w.annotator->setModel(w.model);
            }
            w.annotatorHasModel = true;
            w.editsSinceRefresh = 0;
            w.idEditsSinceRefresh = 0;
            checkLogger(ctx, w.annotator, "annotator", "setModel", false);
            ctx.count("fault_annotator_given_another_model_object");
            ctx.ev("SWAPMODEL");
            if (!checkLookups(ctx, w, s.arg(0))) {
                return;
            }
            continue;
        }
        if (s.op == "SETMODEL") {
            w.annotator->setModel(w.model);
            w.annotatorHasModel = true;
            w.editsSinceRefresh = 0;
            w.idEditsSinceRefresh = 0;
            checkLogger(ctx, w.annotator, "annotator", "setModel", false);
            ctx.ev("SETMODEL");
            continue;
        }
        if (!w.annotatorHasModel && s.op != "ASSIGN_ALL") {
            continue;
        }
        if (s.op == "LOOKUP") {
            if (!checkLookups(ctx, w, s.arg(0))) {
                return;
            }
            ctx.ev("LOOKUP ok");
        } else if (s.op == "ASSIGN_ALL") {
            auto before = collect(w.model);
            bool viaModel = s.arg(0) % 2 != 0 || !w.annotatorHasModel;
            std::string what = viaModel ? "assignAllIds(model)" : "assignAllIds()";
            if (viaModel) {
                // setModel inside: the index is rebuilt first
                w.editsSinceRefresh = 0;
                w.idEditsSinceRefresh = 0;
            }
            bool r = viaModel ? w.annotator->assignAllIds(w.model) : w.annotator->assignAllIds();
            w.annotatorHasModel = true;
            ctx.ev(what + " -> " + str(r));
            ctx.tags(staleTag(w));
            checkLogger(ctx, w.annotator, "annotator", what, false);
            if (!checkAssign(ctx, w, before, T::UNDEFINED, true, what, nullptr)) {
                return;
            }
            ctx.count("annot_assign_all");
        } else if (s.op == "ASSIGN_TYPE") {
            size_t k = size_t(s.arg(0)) % (NKINDS + 2);
            T type = k < NKINDS ? KINDS[k] : (k == NKINDS ? T::MATH : T::UNDEFINED);
            auto before = collect(w.model);
            bool r = w.annotator->assignIds(type);
            std::string what = "assignIds(" + cellmlElementTypeAsString(type) + ")";
            ctx.ev(what + " -> " + str(r));
            checkLogger(ctx, w.annotator, "annotator", what, false);
            if (!checkAssign(ctx, w, before, type, false, what, nullptr)) {
                return;
            }
            // assignIds() ends with setModel(): the index is fresh afterwards
            w.editsSinceRefresh = 0;
            w.idEditsSinceRefresh = 0;
            ctx.count("annot_assign_type");
        } else if (s.op == "ASSIGN_ITEM") {
            auto before = collect(w.model);
            T kind = KINDS[size_t(s.arg(0)) % NKINDS];
            std::vector<const Item *> ofKind;
            for (auto &i : before) {
                if (i.kind == kind) {
                    ofKind.push_back(&i);
                }
            }
            if (ofKind.empty()) {
                continue;
            }
            const Item &it = *ofKind[size_t(s.arg(1)) % ofKind.size()];
            std::string newId;
            std::string what = "assignId(" + cellmlElementTypeAsString(kind) + ")";
            switch (kind) {
            case T::MODEL: newId = w.annotator->assignId(it.model); break;
            case T::ENCAPSULATION: newId = w.annotator->assignId(it.model, T::ENCAPSULATION); break;
            case T::UNITS: newId = w.annotator->assignId(it.units); break;
            case T::UNIT: newId = s.arg(2) % 2 != 0 ? w.annotator->assignId(it.units, it.index) : w.annotator->assignId(UnitsItem::create(it.units, it.index)); break;
            case T::IMPORT: newId = w.annotator->assignId(it.imp); break;
            case T::COMPONENT: newId = w.annotator->assignId(it.comp); break;
            case T::COMPONENT_REF: newId = w.annotator->assignId(it.comp, T::COMPONENT_REF); break;
            case T::VARIABLE: newId = w.annotator->assignId(it.v1); break;
            case T::RESET: newId = w.annotator->assignId(it.reset); break;
            case T::TEST_VALUE: newId = w.annotator->assignId(it.reset, T::TEST_VALUE); break;
            case T::RESET_VALUE: newId = w.annotator->assignId(it.reset, T::RESET_VALUE); break;
            case T::MAP_VARIABLES: newId = s.arg(2) % 2 != 0 ? w.annotator->assignId(VariablePair::create(it.v1, it.v2)) : w.annotator->assignId(it.v1, it.v2); break;
            default: newId = s.arg(2) % 2 != 0 ? w.annotator->assignId(VariablePair::create(it.v1, it.v2), T::CONNECTION) : w.annotator->assignId(it.v1, it.v2, T::CONNECTION); break;
            }
            ctx.ev(what + " on " + it.describe() + " -> '" + newId + "'");
            checkLogger(ctx, w.annotator, "annotator", what, newId.empty());
            auto modelOf = [](const VariablePtr &v) -> ModelPtr {
                ParentedEntityPtr p = v;
                for (int d = 0; p != nullptr && d < 64; ++d) {
                    if (auto m = std::dynamic_pointer_cast<Model>(p)) {
                        return m;
                    }
                    p = p->parent();
                }
                return nullptr;
            };
            bool owned = !(kind == T::MAP_VARIABLES || kind == T::CONNECTION) || (modelOf(it.v1) == w.model && modelOf(it.v2) == w.model);
            if (!owned) {
                ctx.count("annot_assign_item_not_owned");
                if (!newId.empty()) {
                    ctx.violate("C13", "assign-id-to-foreign-item", cellmlElementTypeAsString(kind), what + " assigned an id to " + it.describe() + ", part of which is outside the annotator's model");
                    return;
                }
                continue;
            }
            if (newId.empty()) {
                ctx.violate("C13", "assign-id-to-owned-item-failed", cellmlElementTypeAsString(kind), what + " returned an empty id for " + it.describe() + ", which belongs to the annotator's model");
                return;
            }
            // setAutoId() refreshes the index itself
            w.editsSinceRefresh = 0;
            w.idEditsSinceRefresh = 0;
            if (!checkAssign(ctx, w, before, kind, false, what, &it)) {
                return;
            }
            // the item now carries the returned id
            bool carries = false;
            for (auto &a : collect(w.model)) {
                carries = carries || (a.kind == kind && a.key() == it.key() && a.id == newId);
            }
            if (!carries) {
                ctx.violate("C13", "returned-id-not-on-item", cellmlElementTypeAsString(kind), what + " returned '" + newId + "' but " + it.describe() + " does not carry it");
                return;
            }
            ctx.count("annot_assign_item");
        } else if (s.op == "CLEAR") {
            auto before = collect(w.model);
            if (s.arg(0) % 2 != 0) {
                w.annotator->clearAllIds(w.model);
            } else {
                w.annotator->clearAllIds();
            }
            checkLogger(ctx, w.annotator, "annotator", "clearAllIds", false);
            auto left = allIds(collect(w.model));
            ctx.ev("CLEAR left=" + str(left.size()));
            if (!left.empty()) {
                ctx.count("annot_clear_left_some_ids"); // no property states a post-condition for clearAllIds(): probe only
            }
            w.editsSinceRefresh = 0;
            w.idEditsSinceRefresh = 0;
            ctx.count("annot_clear");
            if (s.arg(1) != 0) {
                // the editor's undo: every identifier is put back exactly where it was, through the entities, before the
                // annotator is asked anything else (the model then looks exactly as it did when the annotator last indexed it)
                auto now = collect(w.model);
                size_t restored = 0;
                if (now.size() == before.size()) {
                    for (size_t k = 0; k < now.size(); ++k) {
                        if (now[k].kind == before[k].kind && now[k].id != before[k].id) {
                            setItemId(now[k], before[k].id);
                            ++restored;
                        }
                    }
                }
                if (restored != 0) {
                    ++w.editsSinceRefresh;
                    ++w.idEditsSinceRefresh;
                    ctx.count("fault_editor_undid_clearAllIds_behind_annotator");
                    ctx.ev("E_UNDO restored=" + str(restored));
                }
            }
        } else if (s.op == "PRINT_AUTO") {
            auto items = collect(w.model);
            auto present = allIds(items);
            std::string before = dumpModel(w.model);
            auto printer = Printer::create();
            std::string text = printer->printModel(w.model, true);
            checkLogger(ctx, printer, "printer", "printModel(autoIds)", false);
            ctx.ev("PRINT_AUTO bytes=" + str(text.size()));
            if (dumpModel(w.model) != before) {
                ctx.violate("C13", "print-autoids-modified-model", "", "printModel(model, true) changed the model");
                return;
            }
            if (!text.empty()) {
                std::multiset<std::string> inText;
                size_t pos = 0;
                while ((pos = text.find(" id=\"", pos)) != std::string::npos) {
                    pos += 5;
                    size_t e = text.find('"', pos);
                    inText.insert(text.substr(pos, e - pos));
                    pos = e;
                }
                // every id written more often than the model carries it is a new one: it must be new to the model and written once
                std::multiset<std::string> fresh;
                std::set<std::string> distinctInText(inText.begin(), inText.end());
                for (auto &x : distinctInText) {
                    size_t extra = inText.count(x) > present.count(x) ? inText.count(x) - present.count(x) : 0;
                    if (extra > 0 && present.count(x) > 0) {
                        ctx.violate("C13", "print-autoids-reused-existing-id", "", "printModel(model, true) wrote the id '" + x + "' " + str(inText.count(x)) + " times, the model carries it " + str(present.count(x)) + " time(s): a generated id repeats an id of the model");
                        return;
                    }
                    for (size_t k = 0; k < extra; ++k) {
                        fresh.insert(x);
                    }
                }
                for (auto &x : fresh) {
                    if (fresh.count(x) > 1) {
                        ctx.violate("C13", "print-autoids-not-distinct", "", "printModel(model, true) wrote the new id '" + x + "' " + str(fresh.count(x)) + " times");
                        return;
                    }
                }
                ctx.count("annot_print_autoids");
                ctx.count("annot_print_autoids_new_ids", long(fresh.size()));
            } else {
                ctx.count("annot_print_autoids_empty_output");
            }
        }
        if (w.model != nullptr) {
            ctx.state(fnv(str(collect(w.model).size()) + ":" + str(allIds(collect(w.model)).size()) + ":" + str(w.editsSinceRefresh > 0)));
        }
    }
}

std::vector<Plan> simplify(const Plan &p)
{
    std::vector<Plan> out;
    if (p.c("maxcomps", 4) > 1) {
        Plan q = p;
        q.cfg["maxcomps"] = p.c("maxcomps", 4) - 1;
        out.push_back(q);
    }
    if (p.c("idmode", 0) != 0) {
        Plan q = p;
        q.cfg["idmode"] = 0;
        out.push_back(q);
    }
    return out;
}

} // namespace

void registerAnnotEngine()
{
    Engine e;
    e.name = "annot";
    e.flavour = "asan";
    e.generate = generate;
    e.execute = execute;
    e.simplify = simplify;
    e.timeoutS = 12;
    e.crashProperty = "C13";
    registerEngine(e);
}
