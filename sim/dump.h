// Independent canonical dumper: reads models through public getters only
// (never through Printer, which is itself under test elsewhere).
#pragma once

#include <string>

#include <libcellml/module/libcellml>

namespace sim {

struct DumpOpts
{
    bool importResolved = false; // include whether each import source currently has a model attached
    bool sortEquivalences = true; // order of a variable's equivalence list is not content
    bool normaliseMathWhitespace = false; // only used to classify the keep-blanks finding
    bool parents = true; // check and record parent links (as "ok"/"BAD")
};

std::string esc(const std::string &s);
std::string normaliseWs(const std::string &s);

std::string dumpModel(const libcellml::ModelPtr &model, const DumpOpts &o = DumpOpts());
std::string dumpComponent(const libcellml::ComponentPtr &c, const DumpOpts &o = DumpOpts());
std::string dumpUnits(const libcellml::UnitsPtr &u, const DumpOpts &o = DumpOpts());
std::string dumpVariable(const libcellml::VariablePtr &v, const DumpOpts &o = DumpOpts());
std::string dumpReset(const libcellml::ResetPtr &r, const DumpOpts &o = DumpOpts());
std::string itemString(const libcellml::AnyCellmlElementPtr &item);
std::string dumpIssues(const libcellml::LoggerPtr &logger, bool withItems = true);
std::string dumpAnalyserModel(const libcellml::AnalyserModelPtr &am);

} // namespace sim
