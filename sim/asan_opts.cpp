// Sanitizer hits are classified by exit code 77; leaks are not a property of interest here.
extern "C" __attribute__((used)) const char *__asan_default_options()
{
    return "exitcode=77:detect_leaks=0:detect_stack_use_after_return=0:allocator_may_return_null=1:handle_abort=0";
}
extern "C" __attribute__((used)) const char *__ubsan_default_options()
{
    return "print_stacktrace=1:halt_on_error=1:exitcode=77";
}
