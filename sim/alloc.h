// Simulated allocator (layout flavour): every C++ allocation of the process is served from a
// fixed-address arena under a seeded policy, so object addresses are part of the plan and are
// identical on replay regardless of ASLR.  In the asan flavour the stub reports active()==false.
#pragma once

#include <cstddef>
#include <cstdint>

namespace simalloc {

enum Policy
{
    BUMP = 0, // creation order == address order, most-recently-freed reuse
    REVERSE = 1, // addresses decrease with creation order
    SHUFFLE = 2, // seeded shuffle inside per-size-class blocks
    BUMP_NOREUSE = 3
};

bool active();
// Start a run: all later allocations come from the run region, which starts at a fixed address.
void beginRun(int policy, uint64_t seed);
// Map a plant zone (fixed address) in which objects can be placed at exact addresses.
bool setPlantZone(uintptr_t base, size_t size);
// The next allocation of exactly `size` bytes is placed at `addr` (inside the plant zone).
void plant(size_t size, uintptr_t addr);
bool plantPending();
uintptr_t runRegionBase();
uint64_t allocationCount();
// Fault: the n-th throwing operator new from now on (n >= 1) fails with std::bad_alloc, once.  0 disarms.
void failAllocation(uint64_t nth);
bool allocationFailureFired();

} // namespace simalloc
