#include "modelgen.h"

#include <sstream>

using namespace libcellml;

namespace sim {

void allComponents(const ComponentEntityPtr &e, std::vector<ComponentPtr> &out)
{
    for (size_t i = 0; i < e->componentCount(); ++i) {
        auto c = e->component(i);
        if (c == nullptr) {
            continue;
        }
        out.push_back(c);
        if (out.size() > 4096) {
            return;
        }
        allComponents(c, out);
    }
}

std::string connectionIdBetween(const VariablePtr &a, const VariablePtr &b)
{
    auto ca = std::dynamic_pointer_cast<Component>(a->parent()), cb = std::dynamic_pointer_cast<Component>(b->parent());
    if (ca == nullptr || cb == nullptr) {
        return "";
    }
    for (size_t i = 0; i < ca->variableCount(); ++i) {
        auto x = ca->variable(i);
        for (size_t e = 0; e < x->equivalentVariableCount(); ++e) {
            auto y = x->equivalentVariable(e);
            if (y != nullptr && y->parent() == cb) {
                auto id = Variable::equivalenceConnectionId(x, y);
                if (!id.empty()) {
                    return id;
                }
            }
        }
    }
    return "";
}

static void classOf(const VariablePtr &v, std::vector<VariablePtr> &out)
{
    for (auto &x : out) {
        if (x == v) {
            return;
        }
    }
    out.push_back(v);
    for (size_t i = 0; i < v->equivalentVariableCount(); ++i) {
        auto e = v->equivalentVariable(i);
        if (e != nullptr && out.size() < 256) {
            classOf(e, out);
        }
    }
}

bool wouldJoinSiblings(const VariablePtr &a, const VariablePtr &b)
{
    std::vector<VariablePtr> ca, cb;
    classOf(a, ca);
    classOf(b, cb);
    for (auto &x : ca) {
        for (auto &y : cb) {
            if (x != y && x->parent() != nullptr && x->parent() == y->parent()) {
                return true;
            }
        }
    }
    return false;
}

namespace {

struct IdSource
{
    Rng &rng;
    long mode;
    long unique = 0;
    long autoNext = 0xb4da55;
    std::vector<std::string> used;

    std::string next()
    {
        long m = mode == 4 ? long(rng.below(4)) : mode;
        std::string id;
        switch (m) {
        case 0:
            return "";
        case 1:
            id = "id_" + str(++unique);
            break;
        case 2:
            if (!used.empty() && rng.chance(1, 3)) {
                id = used[rng.below(used.size())];
            } else if (rng.chance(1, 4)) {
                return "";
            } else {
                id = "id_" + str(++unique);
            }
            break;
        default: { // auto-id shaped, around the annotator's counter, with holes
            if (rng.chance(1, 3)) {
                return "";
            }
            autoNext += long(rng.below(3));
            std::ostringstream o;
            o << std::hex << autoNext;
            ++autoNext;
            id = o.str();
        }
        }
        used.push_back(id);
        return id;
    }
};

} // namespace

ModelPtr genModel(Rng &rng, const GenOpts &o)
{
    IdSource ids {rng, o.idMode};
    auto model = Model::create("model");
    model->setId(ids.next());
    std::vector<ImportSourcePtr> sharedSources;
    // units
    long nUnits = rng.range(0, 3);
    for (long u = 0; u < nUnits; ++u) {
        auto units = Units::create("units" + str(u));
        units->setId(ids.next());
        if (o.imports && rng.chance(1, 4)) {
            // one <import> element may carry several children: an import source is sometimes shared
            ImportSourcePtr is;
            if (!sharedSources.empty() && rng.chance(1, 3)) {
                is = sharedSources[rng.below(sharedSources.size())];
            } else {
                is = ImportSource::create();
                is->setUrl("imp" + str(u) + ".cellml");
                is->setId(ids.next());
                sharedSources.push_back(is);
            }
            units->setSourceUnits(is, "ref_units");
        } else {
            long nc = rng.range(0, 3);
            for (long c = 0; c < nc; ++c) {
                static const char *refs[] = {"second", "metre", "kilogram", "volt"};
                units->addUnit(refs[rng.below(4)], rng.chance(1, 3) ? "milli" : "", double(rng.range(1, 3)), 1.0, ids.next());
            }
        }
        model->addUnits(units);
    }
    // components
    long nComps = rng.range(1, std::max<long>(1, o.maxComps));
    std::vector<ComponentPtr> comps;
    std::vector<VariablePtr> vars;
    for (long c = 0; c < nComps; ++c) {
        auto comp = Component::create("comp" + str(c));
        comp->setId(ids.next());
        if (o.imports && rng.chance(1, 6)) {
            ImportSourcePtr is;
            if (!sharedSources.empty() && rng.chance(1, 3)) {
                is = sharedSources[rng.below(sharedSources.size())];
            } else {
                is = ImportSource::create();
                is->setUrl("impc" + str(c) + ".cellml");
                is->setId(ids.next());
                sharedSources.push_back(is);
            }
            comp->setSourceComponent(is, "ref_component");
        }
        long nv = rng.range(0, std::max<long>(0, o.maxVars));
        for (long v = 0; v < nv; ++v) {
            auto var = Variable::create("v" + str(c) + "_" + str(v));
            var->setId(ids.next());
            if (nUnits > 0 && rng.chance(1, 2)) {
                var->setUnits(model->units(size_t(rng.below(uint64_t(nUnits)))));
            } else {
                var->setUnits("second");
            }
            if (rng.chance(1, 3)) {
                var->setInitialValue(double(rng.range(0, 9)));
            }
            var->setInterfaceType("public_and_private");
            comp->addVariable(var);
            vars.push_back(var);
        }
        if (o.math && nv > 0 && rng.chance(1, 2)) {
            comp->setMath("<math xmlns=\"http://www.w3.org/1998/Math/MathML\" xmlns:cellml=\"http://www.cellml.org/cellml/2.0#\"><apply><eq/><ci>" + comp->variable(0)->name() + "</ci><cn cellml:units=\"second\">1</cn></apply></math>");
        }
        if (o.resets && nv > 0 && rng.chance(1, 3)) {
            long nr = rng.range(1, 2);
            for (long r = 0; r < nr; ++r) {
                auto reset = rng.chance(2, 3) ? Reset::create(int(rng.range(0, 3))) : Reset::create();
                reset->setId(ids.next());
                reset->setVariable(comp->variable(size_t(rng.below(uint64_t(nv)))));
                reset->setTestVariable(comp->variable(size_t(rng.below(uint64_t(nv)))));
                reset->setTestValue("<math xmlns=\"http://www.w3.org/1998/Math/MathML\" xmlns:cellml=\"http://www.cellml.org/cellml/2.0#\"><cn cellml:units=\"second\">" + str(r) + "</cn></math>");
                reset->setTestValueId(ids.next());
                reset->setResetValue("<math xmlns=\"http://www.w3.org/1998/Math/MathML\" xmlns:cellml=\"http://www.cellml.org/cellml/2.0#\"><cn cellml:units=\"second\">" + str(r + 1) + "</cn></math>");
                reset->setResetValueId(ids.next());
                comp->addReset(reset);
            }
        }
        if (!comps.empty() && rng.chance(1, 2)) {
            comps[rng.below(comps.size())]->addComponent(comp);
            comp->setEncapsulationId(ids.next());
        } else {
            model->addComponent(comp);
            if (rng.chance(1, 2)) {
                comp->setEncapsulationId(ids.next());
            }
        }
        comps.push_back(comp);
    }
    if (o.lookAlikes && !comps.empty()) {
        // a structurally identical sibling of some component / variable
        auto c = comps[rng.below(comps.size())];
        auto twin = c->clone();
        auto parent = std::dynamic_pointer_cast<ComponentEntity>(c->parent());
        if (parent != nullptr) {
            parent->addComponent(twin);
            comps.push_back(twin);
        }
    }
    model->setEncapsulationId(ids.next());
    if (o.equivalences && vars.size() >= 2) {
        long ne = rng.range(0, long(vars.size()));
        for (long e = 0; e < ne; ++e) {
            auto a = vars[rng.below(vars.size())], b = vars[rng.below(vars.size())];
            if (a == b || a->parent() == b->parent() || wouldJoinSiblings(a, b)) {
                continue;
            }
            std::string existing = connectionIdBetween(a, b); // id already on this pair of components, if any
            Variable::addEquivalence(a, b);
            if (o.consistentConnections && !existing.empty()) {
                Variable::setEquivalenceConnectionId(a, b, existing);
            }
            if (rng.chance(1, 2)) {
                // ids through the setters: one connection id per pair of components, as in a CellML document
                Variable::setEquivalenceMappingId(a, b, ids.next());
                if (Variable::equivalenceConnectionId(a, b).empty()) {
                    Variable::setEquivalenceConnectionId(a, b, ids.next());
                }
            }
        }
    }
    return model;
}

} // namespace sim
