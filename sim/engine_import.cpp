// Engine `import` (C07, and the bulk of C15): import resolution over a simulated file layer with
// fault injection (missing / unreadable / truncated / failing / replaced files, broken references,
// back-edges forming cycles, cycles of ordinary units, in-flight changes, repair and retry),
// checked against a reference resolver.
#include <algorithm>
#include <map>
#include <set>

#include <libcellml/module/libcellml>

#include "alloc.h"
#include "dump.h"
#include "importworld.h"
#include "kernel.h"
#include "monitor.h"
#include "verifhooks.h"

using namespace libcellml;
using namespace sim;
using namespace iw;

namespace {

// ---------------------------------------------------------------- fault catalogue

enum FaultKind
{
    F_ABSENT = 1,
    F_UNREADABLE = 2,
    F_TRUNCATE = 3, // a = class 0..6
    F_READFAIL = 4, // a = class 0..6, b = flavour (0 EOF, 1 exception)
    F_REPLACE = 5, // a = 0 html, 1 garbage, 2 empty, 3 directory, 4 CellML 1.1, 5 noisy 2.0, 6 noisy 1.1
    F_REFBREAK = 6, // a = import element index inside the file
    F_BACKEDGE = 7, // file/a identify the import whose chain end is turned into an import of it
    F_UNITSCYCLE = 8, // a = pick
    F_ALL11 = 9, // every imported file becomes a CellML 1.1 document (a model library in the old format); a = which of them carry benign noise
    F_RESTORE = 10,
    F_ENTITYFLAW = 11, // an entity other files import gets a parser error of its own (a = pick, b = flavour: element / first variable)
    F_ENTITYGONE = 12, // an entity other files import is renamed in the file that defines it (a = pick)
    F_EMPTYHREF = 13 // an import element loses its URL (xlink:href=""); a = import element index inside the file
};

struct Fault
{
    int kind = 0;
    long file = 0, a = 0, b = 0;
};

const char *faultName(int k)
{
    switch (k) {
    case F_ABSENT: return "absent";
    case F_UNREADABLE: return "unreadable";
    case F_TRUNCATE: return "truncated";
    case F_READFAIL: return "readfail";
    case F_REPLACE: return "replaced";
    case F_REFBREAK: return "refbroken";
    case F_BACKEDGE: return "backedge";
    case F_UNITSCYCLE: return "unitscycle";
    case F_ALL11: return "all-cellml11";
    case F_RESTORE: return "restore";
    case F_ENTITYFLAW: return "entityflaw";
    case F_ENTITYGONE: return "entitygone";
    case F_EMPTYHREF: return "emptyhref";
    }
    return "?";
}

size_t cutFor(const Offsets &o, long cls)
{
    switch (((cls % 7) + 7) % 7) {
    case 0: return 0;
    case 1: return o.afterDecl / 2;
    case 2: return o.inRootStartTag;
    case 3: return o.inAttributeValue;
    case 4: return o.betweenElements;
    case 5: return o.inLastEndTag;
    default: return o.afterRootEnd;
    }
}

struct ImportRef
{
    bool isUnits;
    size_t index;
};

std::vector<ImportRef> importsOf(const FileSpec &f)
{
    std::vector<ImportRef> v;
    for (size_t i = 0; i < f.units.size(); ++i) {
        if (f.units[i].imported) {
            v.push_back({true, i});
        }
    }
    for (size_t i = 0; i < f.comps.size(); ++i) {
        if (f.comps[i].imported) {
            v.push_back({false, i});
        }
    }
    return v;
}

// All single faults applicable to a graph (the sweep enumerates these).
std::vector<Fault> singleFaults(const Graph &g)
{
    std::vector<Fault> out;
    for (size_t f = 1; f < g.files.size(); ++f) {
        out.push_back({F_ABSENT, long(f), 0, 0});
        out.push_back({F_UNREADABLE, long(f), 0, 0});
        for (long c = 0; c < 7; ++c) {
            out.push_back({F_TRUNCATE, long(f), c, 0});
        }
        out.push_back({F_READFAIL, long(f), 4, 0});
        out.push_back({F_READFAIL, long(f), 4, 1});
        out.push_back({F_READFAIL, long(f), 6, 1});
        for (long t = 0; t < 7; ++t) {
            out.push_back({F_REPLACE, long(f), t, 0});
        }
        out.push_back({F_UNITSCYCLE, long(f), 0, 0});
        out.push_back({F_UNITSCYCLE, long(f), 1, 0});
        out.push_back({F_ENTITYFLAW, long(f), 0, 0});
        out.push_back({F_ENTITYFLAW, long(f), 1, 1});
        out.push_back({F_ENTITYGONE, long(f), 0, 0});
        out.push_back({F_ENTITYGONE, long(f), 1, 0});
    }
    out.push_back({F_ALL11, 0, 0, 0});
    out.push_back({F_ALL11, 0, 1, 0});
    out.push_back({F_ALL11, 0, 2, 0});
    for (size_t f = 0; f < g.files.size(); ++f) {
        auto imps = importsOf(g.files[f]);
        for (size_t k = 0; k < imps.size(); ++k) {
            out.push_back({F_REFBREAK, long(f), long(k), 0});
            out.push_back({F_BACKEDGE, long(f), long(k), 0});
            if (k == 0) {
                out.push_back({F_EMPTYHREF, long(f), long(k), 0});
            }
        }
    }
    return out;
}

// ---------------------------------------------------------------- plan generation

Step mk(int task, const std::string &op, std::vector<long> a = {})
{
    Step s;
    s.task = task;
    s.op = op;
    s.a = std::move(a);
    return s;
}

Graph graphFor(long graphSeed, long maxFiles, long avoid, long heavy = 0)
{
    if (graphSeed < 0) {
        return enumeratedGraph(-graphSeed - 1); // the enumerated family of small graphs
    }
    Rng rng(mixSeed(uint64_t(graphSeed), "import-graph", 0));
    GraphParams gp;
    gp.maxFiles = maxFiles;
    gp.avoidIndirectUnits = avoid != 0 && heavy == 0;
    gp.unitsHeavy = heavy == 1;
    gp.encapsulationHeavy = heavy == 2;
    return generateGraph(rng, gp);
}

const long SWEEP_SLOTS = 200;

Plan generate(Rng &rng, const Opts &opts, uint64_t runIndex)
{
    Plan p;
    p.engine = "import";
    bool sweep = opts.f("sweep", 0) != 0;
    long maxFiles = opts.f("maxfiles", opts.tier == "thorough" ? 6 : 5);
    p.cfg["maxfiles"] = maxFiles;
    if (sweep) {
        // deterministic single-fault sweep: run index -> (graph, fault slot)
        long graphNo = long(runIndex / uint64_t(SWEEP_SLOTS));
        long slot = long(runIndex % uint64_t(SWEEP_SLOTS));
        Rng gr(mixSeed(uint64_t(opts.f("sweepseed", 1)), "import-sweep-graph", uint64_t(graphNo)));
        long graphSeed = long(gr.below(1u << 30));
        long avoid = opts.f("avoid", long(graphNo % 2));
        if (opts.f("enum", 0) != 0) {
            // the enumerated family instead of generated graphs: template (graphNo mod count), both importer modes in turn
            graphSeed = -1 - (graphNo % enumeratedGraphCount());
            avoid = 0;
            p.cfg["enum"] = 1;
        }
        long heavy = graphSeed >= 0 ? opts.f("uheavy", graphSeed % 4 == 0 ? 1 : graphSeed % 4 == 1 ? 2 : 0) : 0;
        p.cfg["graphseed"] = graphSeed;
        p.cfg["avoid"] = avoid;
        p.cfg["uheavy"] = heavy;
        p.cfg["sweep"] = 1;
        Graph g = graphFor(graphSeed, maxFiles, avoid, heavy);
        auto faults = singleFaults(g);
        long strict = long(gr.below(2));
        // keep = 1: the client keeps working on the model object it parsed at the start (it is not parsed again after
        // the fault or the repair) and keeps every importer it has used alive
        long keep = long(gr.below(2));
        if (opts.f("enum", 0) != 0) {
            // (template, strict, keep) is a bijection of graphNo over 4 x enumeratedGraphCount() graphs, and every
            // stretch of graph numbers mixes all four (strict, keep) combinations
            long cycle = graphNo / enumeratedGraphCount();
            strict = (graphNo + cycle) % 2;
            keep = (graphNo / 2 + cycle / 2) % 2;
        }
        keep = opts.f("keep", keep);
        p.cfg["keep"] = keep;
        // where the process runs and how the client spells its base path (absolute, relative, relative with "./")
        long cwd = opts.f("cwd", long((graphNo / 3) % 4)), baseMode = opts.f("basemode", long(graphNo % 3));
        p.cfg["cwd"] = cwd;
        p.steps.push_back(mk(0, "IMPORTER", {strict, 0}));
        p.steps.push_back(mk(0, "ROOT", {0, baseMode}));
        p.steps.push_back(mk(0, "RESOLVE"));
        p.steps.push_back(mk(0, "FLATTEN"));
        if (slot < long(faults.size())) {
            const Fault &f = faults[size_t(slot)];
            long how = slot % 3; // how the importer is refreshed before the faulty resolution
            p.steps.push_back(mk(9, "FS", {f.kind, f.file, f.a, f.b}));
            p.steps.push_back(how == 0 ? mk(0, "IMPORTER", {strict, keep}) : (how == 1 ? mk(0, "CLEAR") : mk(0, "NOP")));
            if (keep == 0) {
                p.steps.push_back(mk(0, "ROOT", {0, baseMode}));
            }
            p.steps.push_back(mk(0, "RESOLVE"));
            p.steps.push_back(mk(0, "FLATTEN"));
            if (keep != 0) {
                p.steps.push_back(mk(0, "RESOLVE")); // the same call again while the fault is still there
            }
            p.steps.push_back(mk(0, "QUERY")); // the client looks at the model and asks the library what it holds
            long repair = (slot / 3) % 4; // files restored, then: fresh importer, removeAllModels, or the same importer untouched;
                                          // or (3) files left as they are and a corrected model handed to the same importer's library
            if (repair == 3 && f.file > 0) {
                p.steps.push_back(mk(0, "ADDMODEL", {f.file, slot}));
            } else {
                p.steps.push_back(mk(9, "FS", {F_RESTORE, -1, 0, 0}));
            }
            p.steps.push_back(repair == 0 ? mk(0, "IMPORTER", {strict, keep}) : (repair == 1 ? mk(0, "CLEAR") : mk(0, "NOP")));
            if (keep == 0) {
                p.steps.push_back(mk(0, "ROOT", {0, baseMode}));
            }
            p.steps.push_back(mk(0, "RESOLVE"));
            p.steps.push_back(mk(0, "FLATTEN"));
            // and once more, at once: the answer of a resolution does not depend on the one before it
            p.steps.push_back(mk(0, "RESOLVE"));
            p.steps.push_back(mk(0, "FLATTEN"));
        }
        return p;
    }
    // seeded multi-fault runs
    long graphSeed = long(rng.below(1u << 30));
    long avoid = opts.f("avoid", long(rng.below(2)));
    long heavy = opts.f("uheavy", graphSeed % 4 == 0 ? 1 : graphSeed % 4 == 1 ? 2 : 0);
    p.cfg["graphseed"] = graphSeed;
    p.cfg["avoid"] = avoid;
    p.cfg["uheavy"] = heavy;
    Graph g = graphFor(graphSeed, maxFiles, avoid, heavy);
    auto faults = singleFaults(g);
    p.cfg["cwd"] = opts.f("cwd", long(rng.below(4)));
    long nClients = opts.f("clients", rng.chance(1, 3) ? 2 : 1);
    bool inflight = opts.f("inflight", rng.chance(1, 3) ? 1 : 0) != 0;
    // swarm: enabled fault kinds for this run
    std::vector<Fault> enabled;
    std::set<int> kinds;
    for (int k : {F_ABSENT, F_UNREADABLE, F_TRUNCATE, F_READFAIL, F_REPLACE, F_REFBREAK, F_BACKEDGE, F_UNITSCYCLE, F_ALL11, F_ENTITYFLAW, F_ENTITYGONE, F_EMPTYHREF}) {
        if (rng.chance(1, 2)) {
            kinds.insert(k);
        }
    }
    if (kinds.empty()) {
        kinds.insert(F_TRUNCATE);
    }
    for (auto &f : faults) {
        if (kinds.count(f.kind) != 0) {
            enabled.push_back(f);
        }
    }
    for (long c = 0; c < nClients; ++c) {
        if (c == 1 && rng.chance(1, 2)) {
            p.steps.push_back(mk(1, "SHARE"));
        } else {
            p.steps.push_back(mk(int(c), "IMPORTER", {long(rng.below(2))}));
        }
        p.steps.push_back(mk(int(c), "ROOT", {c == 0 ? 0 : long(rng.below(g.files.size())), long(rng.below(3))}));
    }
    long nSteps = rng.range(6, opts.tier == "thorough" ? 36 : 24);
    for (long s = 0; s < nSteps; ++s) {
        int task = int(rng.below(uint64_t(nClients)));
        unsigned r = unsigned(rng.below(100));
        if (r < 30) {
            p.steps.push_back(mk(task, "RESOLVE"));
        } else if (r < 45) {
            p.steps.push_back(mk(task, "FLATTEN"));
        } else if (r < 52) {
            p.steps.push_back(mk(task, "CLEAR"));
        } else if (r < 58) {
            p.steps.push_back(mk(task, "IMPORTER", {long(rng.below(2)), long(rng.below(2))}));
        } else if (r < 66) {
            p.steps.push_back(mk(task, "ROOT", {task == 0 ? 0 : long(rng.below(g.files.size())), long(rng.below(3))}));
        } else if (r < 82 && !enabled.empty()) {
            const Fault &f = enabled[rng.below(enabled.size())];
            if (inflight && rng.chance(1, 2)) {
                p.steps.push_back(mk(9, "ARM", {long(rng.below(6)), f.kind, f.file, f.a, f.b}));
                p.steps.push_back(mk(task, "RESOLVE"));
            } else {
                p.steps.push_back(mk(9, "FS", {f.kind, f.file, f.a, f.b}));
            }
        } else if (r < 92) {
            long file = rng.chance(1, 2) ? -1 : long(rng.below(g.files.size()));
            if (inflight && rng.chance(1, 3)) {
                p.steps.push_back(mk(9, "ARM", {long(rng.below(6)), F_RESTORE, file, 0, 0}));
                p.steps.push_back(mk(task, "RESOLVE"));
            } else {
                p.steps.push_back(mk(9, "FS", {F_RESTORE, file, 0, 0}));
            }
        } else if (r < 96) {
            p.steps.push_back(mk(task, "ADDMODEL", {long(rng.below(g.files.size())), long(rng.below(8))}));
        } else if (r < 98) {
            p.steps.push_back(mk(task, "SETSTRICT", {long(rng.below(2))}));
        } else {
            p.steps.push_back(mk(task, "QUERY"));
        }
    }
    // end with a repair and a fresh resolution
    p.steps.push_back(mk(9, "FS", {F_RESTORE, -1, 0, 0}));
    p.steps.push_back(rng.chance(1, 2) ? mk(0, "IMPORTER", {long(rng.below(2)), long(rng.below(2))}) : mk(0, "CLEAR"));
    if (rng.chance(2, 3)) {
        p.steps.push_back(mk(0, "ROOT", {0, long(rng.below(3))}));
    }
    p.steps.push_back(mk(0, "RESOLVE"));
    p.steps.push_back(mk(0, "FLATTEN"));
    if (rng.chance(1, 2)) {
        p.steps.push_back(mk(0, "RESOLVE"));
    }
    return p;
}

// ---------------------------------------------------------------- execution

Vfs *gVfs = nullptr;

std::streambuf *seamOpen(const std::string &url)
{
    return gVfs->open(url);
}

struct ImporterState
{
    ImporterPtr importer;
    bool strict = true;
    std::map<std::string, int> refLibrary; // library key -> version id it holds
    std::set<std::string> hrefKeys; // keys under which the client stored models itself (URLs as written)
    std::set<long> baseModesUsed; // how base paths were spelt in resolutions since the library was last emptied: library models keep
                                  // the links they were given, and those lead to keys in the spelling of that time
    std::map<std::string, long> refSeq; // library key -> when it entered the library (models that were there before may be linked to what it replaces)
    long seq = 0;
    bool usedSinceClear = false;
};

struct Client
{
    std::shared_ptr<ImporterState> imp;
    ModelPtr root;
    FileSpec rootSpec;
    int rootFile = -1;
    int rootVersion = -1;
    long baseMode = 0;
    std::string base; // the base path the client passes to resolveImports(): its root file's directory, spelt absolutely or relative to the working directory
    long answerEpoch = -1; // world epoch at which `answer` was given (-1: none)
    std::string answer; // verdict and issues of this client's last RESOLVE
    bool haveVerdict = false; // a verdict for (root, importer) from the last RESOLVE is still meaningful
    bool lastReal = false;
    Verdict lastRef = Verdict::SAT;
    bool lastExact = false;
};

struct World
{
    Graph pristine;
    Vfs vfs;
    std::vector<std::string> activeFaults; // tags of faults applied since the last full restore
    std::map<std::string, std::string> faultOnPath;

    FileVersion makeVersion(const FileSpec &spec)
    {
        FileVersion v;
        v.spec = spec;
        Offsets o;
        v.text = render(spec, &o);
        v.completeAt = o.afterRootEnd;
        v.tag = "ok";
        return v;
    }

    void install(const Graph &g)
    {
        pristine = g;
        for (auto &f : g.files) {
            vfs.addVersion(makeVersion(f), f.path);
        }
    }

    void restore(long file, Ctx &ctx)
    {
        for (size_t i = 0; i < pristine.files.size(); ++i) {
            if (file < 0 || size_t(file) % pristine.files.size() == i) {
                const FileVersion *cur = vfs.at(pristine.files[i].path);
                if (cur == nullptr || cur->tag != "ok") {
                    vfs.addVersion(makeVersion(pristine.files[i]), pristine.files[i].path);
                    ctx.count("fault_repair_restore_file");
                }
                faultOnPath.erase(pristine.files[i].path);
            }
        }
    }

    // the spec currently stored for a file (pristine or structurally modified), ignoring load faults
    FileSpec specOf(size_t file) const
    {
        const FileVersion *cur = vfs.at(pristine.files[file].path);
        return cur != nullptr ? cur->spec : pristine.files[file];
    }

    static void stripFlaws(FileSpec &spec)
    {
        for (auto &u : spec.units) {
            u.flaw = 0;
        }
        for (auto &k : spec.comps) {
            k.flaw = 0;
        }
    }

    void apply(const Fault &fIn, Ctx &ctx)
    {
        Fault f = fIn;
        if (f.kind == F_RESTORE) {
            restore(f.file, ctx);
            return;
        }
        size_t n = pristine.files.size();
        if (f.kind == F_ALL11) {
            for (size_t i = 1; i < n; ++i) {
                FileSpec spec = specOf(i);
                stripFlaws(spec); // the 1.1 rendering does not carry them
                bool noisy = f.a % 3 == 2 || (f.a % 3 == 1 && i % 2 == 0);
                spec.noise = noisy;
                FileVersion v = makeVersion(spec);
                v.load = noisy ? Load::NOISY11 : Load::CELLML11;
                v.text = render11(spec);
                v.spec.noise = false;
                v.tag = noisy ? "replaced-noisy11" : "replaced-cellml11";
                vfs.addVersion(v, pristine.files[i].path);
                faultOnPath[pristine.files[i].path] = v.tag;
            }
            ctx.count("fault_all-cellml11");
            ctx.ev("FS all imported files in CellML 1.1 syntax, noise pattern " + str(f.a % 3));
            return;
        }
        size_t file = size_t(((f.file % long(n)) + long(n)) % long(n));
        if (((f.kind >= F_ABSENT && f.kind <= F_REPLACE) || f.kind == F_UNITSCYCLE || f.kind == F_ENTITYFLAW || f.kind == F_ENTITYGONE) && file == 0 && n > 1) {
            file = 1; // the root file itself is the client's input, not an import
        }
        const std::string path = pristine.files[file].path;
        FileSpec spec = specOf(file);
        FileVersion v = makeVersion(spec);
        Offsets o;
        render(spec, &o);
        std::string tag = faultName(f.kind);
        switch (f.kind) {
        case F_ABSENT:
            v.load = Load::ABSENT;
            break;
        case F_UNREADABLE:
            v.load = Load::UNREADABLE;
            break;
        case F_TRUNCATE:
            v.load = Load::TRUNCATED;
            v.cut = cutFor(o, f.a);
            tag += v.cut >= v.completeAt ? "-after-root-end" : "-cls" + str(((f.a % 7) + 7) % 7);
            break;
        case F_READFAIL:
            v.load = (f.b % 2) != 0 ? Load::READFAIL_THROW : Load::TRUNCATED;
            v.cut = cutFor(o, f.a);
            tag += std::string((f.b % 2) != 0 ? "-throw" : "-eof") + (v.cut >= v.completeAt ? "-after-root-end" : "");
            break;
        case F_REPLACE:
            switch (((f.a % 7) + 7) % 7) {
            case 0:
                v.load = Load::NONCELLML;
                v.text = "<?xml version=\"1.0\"?>\n<html xmlns=\"http://www.w3.org/1999/xhtml\"><body><p>not a model</p></body></html>\n";
                tag += "-html";
                break;
            case 1:
                v.load = Load::GARBAGE;
                v.text = "\x7f" "ELF\x02\x01\x01 this is not XML at all <<<>>> &&&";
                tag += "-garbage";
                break;
            case 2:
                v.load = Load::EMPTY;
                tag += "-empty";
                break;
            case 3:
                v.load = Load::EMPTY;
                tag += "-directory";
                break;
            case 4:
                stripFlaws(spec);
                v = makeVersion(spec);
                v.load = Load::CELLML11;
                v.text = render11(spec);
                tag += "-cellml11";
                break;
            case 5: {
                FileSpec noisy = spec;
                noisy.noise = true;
                v.load = Load::NOISY20;
                v.text = render(noisy);
                tag += "-noisy20";
                ctx.count("fault_benign_noise");
                break;
            }
            default: {
                stripFlaws(spec);
                v = makeVersion(spec);
                FileSpec noisy = spec;
                noisy.noise = true;
                v.load = Load::NOISY11;
                v.text = render11(noisy);
                tag += "-noisy11";
                ctx.count("fault_benign_noise");
            }
            }
            break;
        case F_REFBREAK: {
            auto imps = importsOf(spec);
            if (imps.empty()) {
                return;
            }
            auto &ir = imps[size_t(f.a) % imps.size()];
            if (ir.isUnits) {
                spec.units[ir.index].ref = "nosuch_entity";
            } else {
                spec.comps[ir.index].ref = "nosuch_entity";
            }
            v = makeVersion(spec);
            break;
        }
        case F_EMPTYHREF: {
            auto imps = importsOf(spec);
            if (imps.empty()) {
                return;
            }
            auto &ir = imps[size_t(f.a) % imps.size()];
            if (ir.isUnits) {
                spec.units[ir.index].href = "";
                spec.units[ir.index].targetFile = -1;
            } else {
                spec.comps[ir.index].href = "";
                spec.comps[ir.index].targetFile = -1;
            }
            v = makeVersion(spec);
            break;
        }
        case F_BACKEDGE: {
            // follow the chain of the chosen import to its local end and turn that end into an import of the start
            auto imps = importsOf(spec);
            if (imps.empty()) {
                return;
            }
            auto &ir = imps[size_t(f.a) % imps.size()];
            std::string startName = ir.isUnits ? spec.units[ir.index].name : spec.comps[ir.index].name;
            size_t curFile = file;
            FileSpec curSpec = spec;
            std::string curName = startName;
            bool isUnits = ir.isUnits;
            long hops = 0;
            while (hops < 8) {
                int idx = isUnits ? curSpec.findUnits(curName) : curSpec.findComp(curName);
                if (idx < 0) {
                    return;
                }
                bool imported = isUnits ? curSpec.units[size_t(idx)].imported : curSpec.comps[size_t(idx)].imported;
                if (!imported) {
                    break;
                }
                int tf = isUnits ? curSpec.units[size_t(idx)].targetFile : curSpec.comps[size_t(idx)].targetFile;
                curName = isUnits ? curSpec.units[size_t(idx)].ref : curSpec.comps[size_t(idx)].ref;
                if (tf < 0 || curName == "nosuch_entity") {
                    return;
                }
                curFile = size_t(tf);
                curSpec = specOf(curFile);
                ++hops;
            }
            if (curFile == file || hops == 0) {
                return;
            }
            int idx = isUnits ? curSpec.findUnits(curName) : curSpec.findComp(curName);
            if (idx < 0) {
                return;
            }
            std::string href = hrefBetween(curSpec.dir, pristine.files[file].path);
            if (isUnits) {
                auto &u = curSpec.units[size_t(idx)];
                u.imported = true;
                u.children.clear();
                u.href = href;
                u.ref = startName;
                u.targetFile = int(file);
            } else {
                auto &c = curSpec.comps[size_t(idx)];
                c.imported = true;
                c.vars.clear();
                c.cn.clear();
                c.href = href;
                c.ref = startName;
                c.targetFile = int(file);
            }
            tag += std::string(isUnits ? "-units" : "-component") + "-len" + str(hops + 1);
            FileVersion nv = makeVersion(curSpec);
            nv.tag = tag;
            vfs.addVersion(nv, pristine.files[curFile].path);
            faultOnPath[pristine.files[curFile].path] = tag;
            ctx.count(std::string("fault_") + faultName(f.kind));
            ctx.ev("FS " + tag + " on " + pristine.files[curFile].path);
            return;
        }
        case F_UNITSCYCLE: {
            std::vector<size_t> locals;
            for (size_t i = 0; i < spec.units.size(); ++i) {
                if (!spec.units[i].imported) {
                    locals.push_back(i);
                }
            }
            if (locals.empty()) {
                return;
            }
            size_t a = locals[size_t(f.a) % locals.size()];
            size_t b = locals[(size_t(f.a) + 1) % locals.size()];
            spec.units[a].children.push_back(spec.units[b].name);
            if (a != b) {
                spec.units[b].children.push_back(spec.units[a].name);
            }
            spec.hasLocalUnitsCycle = true;
            tag += a == b ? "-self" : "-pair";
            v = makeVersion(spec);
            break;
        }
        case F_ENTITYFLAW:
        case F_ENTITYGONE: {
            // local entities of this file, those that some import somewhere refers to first
            struct Cand
            {
                bool isUnits;
                size_t index;
            };
            std::vector<Cand> referenced, others;
            auto isReferenced = [&](bool isUnits, const std::string &name) {
                for (size_t g = 0; g < n; ++g) {
                    FileSpec other = specOf(g);
                    for (auto &u : other.units) {
                        if (isUnits && u.imported && u.targetFile == int(file) && u.ref == name) {
                            return true;
                        }
                    }
                    for (auto &c : other.comps) {
                        if (!isUnits && c.imported && c.targetFile == int(file) && c.ref == name) {
                            return true;
                        }
                    }
                }
                return false;
            };
            auto usedLocally = [&](const std::string &unitsName) {
                for (auto &u : spec.units) {
                    if (std::find(u.children.begin(), u.children.end(), unitsName) != u.children.end()) {
                        return true;
                    }
                }
                for (auto &c : spec.comps) {
                    for (auto &var : c.vars) {
                        if (var.units == unitsName) {
                            return true;
                        }
                    }
                    if (std::find(c.cn.begin(), c.cn.end(), unitsName) != c.cn.end()) {
                        return true;
                    }
                }
                return false;
            };
            for (size_t i = 0; i < spec.units.size(); ++i) {
                if (!spec.units[i].imported && spec.units[i].flaw == 0 && (f.kind == F_ENTITYFLAW || !usedLocally(spec.units[i].name))) {
                    (isReferenced(true, spec.units[i].name) ? referenced : others).push_back({true, i});
                }
            }
            for (size_t i = 0; i < spec.comps.size(); ++i) {
                if (!spec.comps[i].imported && spec.comps[i].flaw == 0) {
                    (isReferenced(false, spec.comps[i].name) ? referenced : others).push_back({false, i});
                }
            }
            auto &pool = referenced.empty() ? others : referenced;
            if (pool.empty()) {
                return;
            }
            const Cand &cand = pool[size_t(f.a < 0 ? -f.a : f.a) % pool.size()];
            std::string name = cand.isUnits ? spec.units[cand.index].name : spec.comps[cand.index].name;
            if (f.kind == F_ENTITYFLAW) {
                if (cand.isUnits) {
                    spec.units[cand.index].flaw = 1;
                } else {
                    spec.comps[cand.index].flaw = (f.b % 2) != 0 ? 2 : 1;
                }
                tag += std::string(cand.isUnits ? "-units" : "-component") + (referenced.empty() ? "-unreferenced" : "");
            } else {
                (cand.isUnits ? spec.units[cand.index].name : spec.comps[cand.index].name) = name + "_renamed";
                tag += std::string(cand.isUnits ? "-units" : "-component") + (referenced.empty() ? "-unreferenced" : "");
            }
            v = makeVersion(spec);
            if (f.kind == F_ENTITYFLAW) {
                auto probe = Parser::create(false);
                probe->parseModel(v.text);
                ctx.count("probe_flawed_entity_document_parser_errors", long(probe->errorCount()));
            }
            break;
        }
        default:
            return;
        }
        if (v.load == Load::NOISY20 || v.load == Load::NOISY11) {
            // reach probe: the noise really makes the parser report errors (and, for 1.x, messages) that the importer then has to delete
            auto probe = Parser::create(false);
            probe->parseModel(v.text);
            ctx.count("probe_noise_document_parser_errors", long(probe->errorCount()));
            ctx.count("probe_noise_document_parser_messages", long(probe->messageCount()));
        }
        v.tag = tag;
        vfs.addVersion(v, path);
        faultOnPath[path] = tag;
        ctx.count(std::string("fault_") + faultName(f.kind));
        ctx.ev("FS " + tag + " on " + path);
        if (ctx.trace) {
            fprintf(stderr, "---- %s now (%s):\n%s\n", path.c_str(), tag.c_str(), v.served().c_str());
        }
    }
};

std::string faultTags(const World &w, const std::set<std::string> &paths, const std::set<int> &versionsServed)
{
    std::set<std::string> tags;
    for (auto &p : paths) {
        auto it = w.faultOnPath.find(p);
        if (it != w.faultOnPath.end()) {
            tags.insert(it->second);
        }
    }
    for (int id : versionsServed) {
        if (id >= 0 && w.vfs.versions[size_t(id)].tag != "ok") {
            tags.insert(w.vfs.versions[size_t(id)].tag);
        }
    }
    std::string s;
    for (auto &t : tags) {
        s += (s.empty() ? "" : ",") + t;
    }
    return s;
}

// No file of this world - in any version it ever had, on disk or in a library - imports, directly or through others, from
// itself, and none has a loop of ordinary units: no dependency cycle of any kind can exist, whatever was served when.
bool worldIsAcyclic(const iw::Vfs &vfs, const iw::FileSpec &clientRoot)
{
    std::map<std::string, std::set<std::string>> adj;
    auto edges = [&](const std::string &node, const iw::FileSpec &f) {
        for (auto &u : f.units) {
            if (u.imported) {
                adj[node].insert(iw::normalisePath(f.dir + u.href));
            }
        }
        for (auto &c : f.comps) {
            if (c.imported) {
                adj[node].insert(iw::normalisePath(f.dir + c.href));
            }
        }
    };
    if (clientRoot.hasLocalUnitsCycle) {
        return false;
    }
    edges("<client model>", clientRoot);
    for (auto &v : vfs.versions) {
        if (v.spec.hasLocalUnitsCycle) {
            return false;
        }
        edges(iw::normalisePath(v.spec.path), v.spec);
    }
    std::map<std::string, int> colour; // 1: on the path, 2: finished
    std::function<bool(const std::string &)> visit = [&](const std::string &n) {
        int &c = colour[n];
        if (c == 1) {
            return false;
        }
        if (c == 2) {
            return true;
        }
        c = 1;
        auto it = adj.find(n);
        if (it != adj.end()) {
            for (auto &t : it->second) {
                if (!visit(t)) {
                    return false;
                }
            }
        }
        colour[n] = 2;
        return true;
    };
    for (auto &kv : adj) {
        if (!visit(kv.first)) {
            return false;
        }
    }
    return true;
}

bool issueNamesAnImport(const IssuePtr &is)
{
    auto item = is->item();
    if (item == nullptr) {
        return false;
    }
    switch (item->type()) {
    case CellmlElementType::IMPORT:
        return item->importSource() != nullptr;
    case CellmlElementType::UNITS:
        return item->units() != nullptr && item->units()->isImport();
    case CellmlElementType::COMPONENT:
        return item->component() != nullptr && item->component()->isImport();
    default:
        return false;
    }
}

// Walk the closure of a model over the real objects and name the first import that has no model attached.
struct UnresolvedFinder
{
    std::string found;
    std::set<const void *> visiting;
    ModelPtr root;

    std::string place(const ModelPtr &m) const
    {
        return m == root ? "root" : "library-model";
    }

    bool unitsOk(const UnitsPtr &u, const ModelPtr &m, int depth)
    {
        if (u == nullptr || depth > 64 || visiting.count(u.get()) != 0) {
            return true;
        }
        if (u->isImport()) {
            auto src = u->importSource()->model();
            if (src == nullptr) {
                found = "unfetched-units-import-in-" + place(m);
                return false;
            }
            auto target = src->units(u->importReference());
            if (target == nullptr) {
                found = "units-reference-missing-in-" + place(m);
                return false;
            }
            return unitsOk(target, src, depth + 1);
        }
        visiting.insert(u.get());
        bool ok = true;
        for (size_t i = 0; ok && i < u->unitCount(); ++i) {
            auto child = m != nullptr ? m->units(u->unitAttributeReference(i)) : nullptr;
            ok = unitsOk(child, m, depth + 1);
        }
        visiting.erase(u.get());
        return ok;
    }

    bool componentOk(const ComponentPtr &k, const ModelPtr &m, int depth)
    {
        if (k == nullptr || depth > 64) {
            return true;
        }
        bool ok = true;
        if (k->isImport()) {
            auto src = k->importSource()->model();
            if (src == nullptr) {
                found = "unfetched-component-import-in-" + place(m);
                return false;
            }
            auto target = src->component(k->importReference());
            if (target == nullptr) {
                found = "component-reference-missing-in-" + place(m);
                return false;
            }
            ok = componentOk(target, src, depth + 1);
        } else {
            for (size_t i = 0; ok && i < k->variableCount(); ++i) {
                auto vu = k->variable(i)->units();
                if (vu != nullptr && m != nullptr) {
                    ok = unitsOk(m->units(vu->name()), m, depth + 1);
                }
            }
            // units named by cn elements
            std::string math = k->math();
            size_t pos = 0;
            while (ok && (pos = math.find("cellml:units=\"", pos)) != std::string::npos) {
                pos += 14;
                size_t end = math.find('"', pos);
                if (end == std::string::npos) {
                    break;
                }
                if (m != nullptr) {
                    ok = unitsOk(m->units(math.substr(pos, end - pos)), m, depth + 1);
                }
                pos = end;
            }
        }
        for (size_t i = 0; ok && i < k->componentCount(); ++i) {
            ok = componentOk(k->component(i), m, depth + 1);
        }
        return ok;
    }
};

std::string firstUnresolved(const ModelPtr &root)
{
    UnresolvedFinder f;
    f.root = root;
    bool ok = true;
    for (size_t i = 0; ok && i < root->unitsCount(); ++i) {
        ok = f.unitsOk(root->units(i), root, 0);
    }
    for (size_t i = 0; ok && i < root->componentCount(); ++i) {
        ok = f.componentOk(root->component(i), root, 0);
    }
    return ok ? "closure-fully-linked" : f.found;
}

// URLs, exactly as written, by which the given specs import the file at `path` - only those that mean this file wherever
// they are written (the library looks a URL up as written before it resolves it against the importing file's directory)
bool hrefUnambiguous(const std::vector<FileSpec> &specs, const std::string &href, const std::string &path)
{
    for (auto &f : specs) {
        for (auto &u : f.units) {
            if (u.imported && u.href == href && normalisePath(f.dir + u.href) != path) {
                return false;
            }
        }
        for (auto &k : f.comps) {
            if (k.imported && k.href == href && normalisePath(f.dir + k.href) != path) {
                return false;
            }
        }
    }
    return true;
}

std::vector<std::string> hrefsFor(const std::vector<FileSpec> &specs, const std::string &path, int)
{
    std::set<std::string> found;
    for (auto &f : specs) {
        for (auto &u : f.units) {
            if (u.imported && normalisePath(f.dir + u.href) == path) {
                found.insert(u.href);
            }
        }
        for (auto &k : f.comps) {
            if (k.imported && normalisePath(f.dir + k.href) == path) {
                found.insert(k.href);
            }
        }
    }
    std::vector<std::string> out;
    for (auto &h : found) {
        if (hrefUnambiguous(specs, h, path)) {
            out.push_back(h);
        }
    }
    return out;
}

void execute(const Plan &plan, Ctx &ctx)
{
    World w;
    gVfs = &w.vfs;
    libcellml::verif::openFile = seamOpen;
    static const char *const cwds[] = {"/w/", "/w/a/", "/w/b/", "/w/a/x/"};
    w.vfs.cwd = cwds[((plan.c("cwd", 0) % 4) + 4) % 4];
    w.install(graphFor(plan.c("graphseed", 1), plan.c("maxfiles", 5), plan.c("avoid", 0), plan.c("uheavy", 0)));
    if (ctx.trace) {
        for (auto &f : w.pristine.files) {
            fprintf(stderr, "---- %s:\n%s\n", f.path.c_str(), w.vfs.at(f.path)->text.c_str());
        }
    }
    std::vector<Client> clients(2);
    std::vector<std::shared_ptr<ImporterState>> retired;
    long epoch = 0; // advanced by everything that may change what a resolution sees (files, libraries, importers, root models)
    if (plan.c("sweep", 0) != 0) {
        size_t nFaults = singleFaults(w.pristine).size();
        if (long(nFaults) > SWEEP_SLOTS) {
            ctx.violate("C07", "harness-sweep-slots-too-few", "", "the graph has " + str(nFaults) + " single faults but the sweep enumerates only " + str(SWEEP_SLOTS));
            return;
        }
    }
    std::vector<Fault> armed; // applied at the n-th open of the next RESOLVE (kind < 0: unused)
    std::vector<long> armedAt;
    checkRuleTable(ctx);
    DumpOpts dumpNoLinks;

    auto sharedTag = [&](const Client &c) {
        return (clients[0].imp != nullptr && clients[0].imp == clients[1].imp) ? std::string(",shared-importer") : std::string();
    };

    int stepNo = -1;
    for (auto &s : plan.steps) {
        ++stepNo;
        int t = s.task == 1 ? 1 : 0;
        Client &c = clients[size_t(t)];
        if (s.op == "NOP") {
            continue;
        }
        if (s.op == "FS") {
            ctx.begin(stepNo, "FS", faultName(int(s.arg(0))));
            w.apply({int(s.arg(0)), s.arg(1), s.arg(2), s.arg(3)}, ctx);
            ++epoch;
            continue;
        }
        if (s.op == "ARM") {
            armedAt.push_back(std::max<long>(0, s.arg(0)));
            armed.push_back({int(s.arg(1)), s.arg(2), s.arg(3), s.arg(4)});
            continue;
        }
        if (s.op == "IMPORTER") {
            ctx.begin(stepNo, "IMPORTER", "");
            ++epoch;
            if (s.arg(1) != 0 && c.imp != nullptr) {
                // the client keeps its previous importer (and so the models its root is still linked to) alive
                retired.push_back(c.imp);
                ctx.count("previous_importer_kept_alive");
            }
            c.imp = std::make_shared<ImporterState>();
            c.imp->strict = s.arg(0) % 2 != 0;
            c.imp->importer = Importer::create(c.imp->strict);
            c.haveVerdict = false;
            ctx.ev("IMPORTER task " + str(t) + " strict=" + str(c.imp->strict));
            continue;
        }
        if (s.op == "SETSTRICT") {
            if (c.imp != nullptr) {
                ctx.begin(stepNo, "SETSTRICT", "");
                ++epoch;
                c.imp->strict = s.arg(0) % 2 != 0;
                c.imp->importer->setStrict(c.imp->strict);
                if (c.imp->importer->isStrict() != c.imp->strict) {
                    ctx.violate("C07", "strict-flag-not-taken", "", "isStrict() does not return what setStrict() was given");
                    return;
                }
                for (auto &cl : clients) {
                    if (cl.imp == c.imp) {
                        cl.haveVerdict = false;
                    }
                }
                ctx.count("importer_mode_switched_after_creation");
                ctx.ev("SETSTRICT " + str(c.imp->strict));
            }
            continue;
        }
        if (s.op == "SHARE") {
            ++epoch;
            if (clients[0].imp != nullptr) {
                clients[1].imp = clients[0].imp;
                clients[1].haveVerdict = false;
                ctx.count("shared_importer");
                ctx.ev("SHARE");
            }
            continue;
        }
        if (c.imp == nullptr) {
            continue;
        }
        auto &imp = *c.imp;
        if (s.op == "ROOT") {
            ctx.begin(stepNo, "ROOT", "");
            ++epoch;
            size_t file = size_t(s.arg(0)) % w.pristine.files.size();
            const FileVersion *v = w.vfs.at(w.pristine.files[file].path);
            c.root = nullptr;
            c.haveVerdict = false;
            bool flawed = false;
            if (v != nullptr) {
                for (auto &u : v->spec.units) {
                    flawed = flawed || u.flaw != 0;
                }
                for (auto &k : v->spec.comps) {
                    flawed = flawed || k.flaw != 0;
                }
            }
            if (v == nullptr || !v->opens() || !v->wellFormed() || v->load != Load::OK || v->spec.hasLocalUnitsCycle || flawed) {
                ctx.ev("ROOT unavailable");
                continue;
            }
            auto parser = Parser::create(true);
            c.root = parser->parseModel(v->served());
            checkLogger(ctx, parser, "parser", "parseModel", c.root == nullptr);
            if (parser->errorCount() != 0) {
                ctx.violate("C07", "harness-root-has-parse-errors", "", "generated root document does not parse cleanly: " + parser->error(0)->description());
                return;
            }
            c.rootSpec = v->spec;
            {
                std::string rel = relativeDir(w.vfs.cwd, v->spec.dir);
                long mode = ((s.arg(1) % 3) + 3) % 3;
                c.baseMode = mode;
                c.base = mode == 0 ? v->spec.dir : (mode == 1 ? rel : "./" + rel);
                c.rootSpec.rawDir = libraryNormaliseBase(c.base);
                c.rootSpec.rawDirSet = true;
                ctx.count(mode == 0 ? "base_path_absolute" : (mode == 1 ? "base_path_relative" : "base_path_relative_with_dot"));
            }
            c.rootFile = int(file);
            c.rootVersion = v->id;
            ctx.ev("ROOT task " + str(t) + " file " + str(file) + " v" + str(v->id));
            continue;
        }
        if (s.op == "CLEAR") {
            ctx.begin(stepNo, "CLEAR", "");
            ++epoch;
            imp.importer->removeAllModels();
            imp.refLibrary.clear();
            imp.baseModesUsed.clear();
            imp.hrefKeys.clear();
            imp.refSeq.clear();
            for (auto &cl : clients) {
                if (cl.imp == c.imp) {
                    cl.haveVerdict = false;
                }
            }
            if (imp.importer->libraryCount() != 0) {
                ctx.violate("C07", "library-not-cleared", "", "libraryCount() != 0 after removeAllModels()");
                return;
            }
            ctx.ev("CLEAR");
            continue;
        }
        if (s.op == "ADDMODEL") {
            // The client repairs (or pre-empts) a file through the importer's library: it parses the pristine content of a
            // file and stores the model under the URL exactly as an import writes it; such a key is used before any file.
            size_t n = w.pristine.files.size();
            size_t file = size_t(((s.arg(0) % long(n)) + long(n)) % long(n));
            if (file == 0) {
                continue;
            }
            std::vector<FileSpec> specs;
            if (c.root != nullptr) {
                specs.push_back(c.rootSpec);
            }
            for (size_t g = 0; g < n; ++g) {
                specs.push_back(w.specOf(g));
            }
            std::vector<std::string> hrefs = hrefsFor(specs, w.pristine.files[file].path, int(file));
            if (hrefs.empty()) {
                continue;
            }
            ctx.begin(stepNo, "ADDMODEL", "");
            ++epoch;
            const std::string &href = hrefs[size_t(s.arg(1) < 0 ? -s.arg(1) : s.arg(1)) % hrefs.size()];
            FileVersion v = w.makeVersion(w.pristine.files[file]);
            v.tag = "ok";
            int id = w.vfs.registerVersion(v);
            auto parser = Parser::create(true);
            auto model = parser->parseModel(v.text);
            if (model == nullptr || parser->errorCount() != 0) {
                ctx.violate("C07", "harness-library-model-has-parse-errors", "", "the pristine content of a generated file does not parse cleanly");
                return;
            }
            bool added = imp.importer->addModel(model, href);
            bool replaced = !added && imp.importer->replaceModel(model, href);
            if (!added && !replaced) {
                ctx.violate("C07", "library-refused-model", "", "neither addModel() nor replaceModel() accepted a parsed model under the key '" + href + "'");
                return;
            }
            if (imp.importer->library(href) != model) {
                ctx.violate("C07", "library-key-does-not-yield-model", "", "library('" + href + "') does not return the model just stored under that key");
                return;
            }
            imp.refLibrary[href] = id;
            imp.hrefKeys.insert(href);
            imp.refSeq[href] = ++imp.seq;
            for (auto &cl : clients) {
                if (cl.imp == c.imp) {
                    cl.haveVerdict = false;
                }
            }
            ctx.count(added ? "library_model_added_under_written_url" : "library_model_replaced_under_written_url");
            ctx.ev("ADDMODEL file " + str(file) + " as '" + href + "' " + (added ? "added" : "replaced"));
            continue;
        }
        if (c.root == nullptr) {
            continue;
        }
        if (s.op == "RESOLVE") {
            ctx.begin(stepNo, "RESOLVE", "");
            // documented state at call start: the library
            std::map<std::string, int> libAtStart; // normalised path -> version held
            std::map<std::string, int> libRawAtStart; // key exactly as spelt -> version held
            std::map<std::string, int> hrefLib; // URL as written -> version held (models the client stored itself)
            bool stale = false, unknownKey = false;
            for (size_t i = 0; i < imp.importer->libraryCount(); ++i) {
                std::string key = imp.importer->key(i);
                auto it = imp.refLibrary.find(key);
                if (it == imp.refLibrary.end()) {
                    unknownKey = true;
                    continue;
                }
                libRawAtStart[key] = it->second; // a key is a key: looked up by the URL as written first, by the resolved spelling next
                if (imp.hrefKeys.count(key) != 0) {
                    hrefLib[key] = it->second;
                    // the key means one file only if every import that writes this URL means that file
                    std::vector<FileSpec> specs {c.rootSpec};
                    for (size_t g = 0; g < w.pristine.files.size(); ++g) {
                        specs.push_back(w.specOf(g));
                    }
                    const std::string &overridden = w.vfs.versions[size_t(it->second)].spec.path;
                    if (!hrefUnambiguous(specs, key, overridden)) {
                        stale = true;
                    }
                    // a model that was in the library before may already be linked to what this key now overrides
                    for (auto &other : imp.refLibrary) {
                        if (other.first != key && imp.refSeq[other.first] < imp.refSeq[key]) {
                            const FileSpec &os = w.vfs.versions[size_t(other.second)].spec;
                            for (auto &u : os.units) {
                                stale = stale || (u.imported && normalisePath(os.dir + u.href) == overridden);
                            }
                            for (auto &k : os.comps) {
                                stale = stale || (k.imported && normalisePath(os.dir + k.href) == overridden);
                            }
                        }
                    }
                    continue;
                }
                std::string np = w.vfs.absolute(key);
                libAtStart[np] = it->second;
                libRawAtStart[key] = it->second;
                const FileVersion *cur = w.vfs.at(np);
                const FileVersion &heldVersion = w.vfs.versions[size_t(it->second)];
                if (cur == nullptr || cur->id != (heldVersion.originId >= 0 ? heldVersion.originId : heldVersion.id)) {
                    stale = true;
                }
            }
            imp.baseModesUsed.insert(c.baseMode);
            if (imp.baseModesUsed.size() > 1 && imp.importer->libraryCount() > 0) {
                stale = true; // models already in the library may be linked to keys in another spelling
            }
            if (unknownKey) {
                ctx.violate("C07", "harness-untracked-library-key", "", "the library holds a key the reference does not know");
                return;
            }
            // in-flight changes: the filesystem operator runs at open() yield points
            std::vector<Fault> armedNow = armed;
            std::vector<long> armedAtNow = armedAt;
            armed.clear();
            armedAt.clear();
            bool inflightFired = false;
            w.vfs.onOpen = [&](size_t index) {
                for (size_t k = 0; k < armedNow.size(); ++k) {
                    if (armedAtNow[k] == long(index)) {
                        w.apply(armedNow[k], ctx);
                        armedAtNow[k] = -1;
                        inflightFired = true;
                        ctx.count("fault_inflight_change_during_resolution");
                    }
                }
            };
            w.vfs.beginCall();
            bool real = imp.importer->resolveImports(c.root, c.base);
            w.vfs.onOpen = nullptr;
            imp.usedSinceClear = true;
            ctx.count("resolve_calls");
            if (inflightFired) {
                ++epoch;
            }
            {
                // C12: the same call on the same importer and the same model, with nothing in between that could change
                // what it sees, gives the same verdict and the same issues
                // (MESSAGE-level notes are left out: "given model is a CellML 1.1 model" describes the act of reading a file
                // and is given when the file is read, not when the model comes from the library, which is documented state)
                std::string answer = str(real) + "\n";
                for (size_t i = 0; i < imp.importer->issueCount(); ++i) {
                    auto is = imp.importer->issue(i);
                    if (is != nullptr && is->level() != Issue::Level::MESSAGE) {
                        answer += str(long(is->level())) + "|" + str(long(is->referenceRule())) + "|" + is->description() + "\n";
                    }
                }
                if (c.answerEpoch == epoch && !inflightFired) {
                    ctx.count("resolve_repeated_with_nothing_in_between");
                    if (answer != c.answer) {
                        ctx.violate("C12", "repeated-call-different-answer", "Importer.resolveImports,same-importer", "resolveImports() repeated on the same importer and model, nothing in between, answers differently: first '" + esc(c.answer.substr(0, 300)) + "' then '" + esc(answer.substr(0, 300)) + "'");
                        return;
                    }
                }
                for (auto &cl : clients) {
                    if (&cl != &c && cl.imp == c.imp) {
                        cl.answerEpoch = -1; // the shared library may have grown
                    }
                }
                c.answer = answer;
                c.answerEpoch = inflightFired ? -1 : epoch; // a call during which the files changed saw a mixture: not comparable
            }
            // what was served
            std::map<std::string, std::set<int>> served; // normalised path -> versions (-1 = absent) served by opens
            std::set<int> versionsServed;
            for (auto &rec : w.vfs.log) {
                served[rec.path].insert(rec.version);
                versionsServed.insert(rec.version);
            }
            ctx.count("file_opens", long(w.vfs.log.size()));
            // maintain the reference's image of the library
            for (size_t i = 0; i < imp.importer->libraryCount(); ++i) {
                std::string key = imp.importer->key(i);
                if (imp.refLibrary.count(key) != 0) {
                    continue;
                }
                int ver = -2;
                for (auto &rec : w.vfs.log) {
                    if (rec.url == key && rec.opened) {
                        ver = rec.version; // the last successful open of that key is the one that was kept
                    }
                }
                if (ver < 0) {
                    ctx.violate("C07", "library-key-without-open", "", "the library gained the key '" + key + "' without a successful open of that URL");
                    return;
                }
                if (!w.vfs.versions[size_t(ver)].wellFormed()) {
                    // what makes "repair, then resolve again with the same importer" work for damaged files:
                    // a file that could not be parsed as XML is reported and never kept
                    ctx.violate("C07", "library-kept-unparseable-file", w.vfs.versions[size_t(ver)].tag, "the importer's library now holds '" + key + "' although what was served for it is not well-formed XML (" + w.vfs.versions[size_t(ver)].tag + "): a repaired file would never be read again");
                    return;
                }
                if (w.vfs.versions[size_t(ver)].load == Load::CELLML11 || w.vfs.versions[size_t(ver)].load == Load::NOISY11) {
                    // what a 1.x document became depends on the mode it was read in: remembered with the library entry
                    FileVersion held = w.vfs.versions[size_t(ver)];
                    held.parsedStrict = imp.strict ? 1 : 0;
                    held.originId = ver;
                    ver = w.vfs.registerVersion(held);
                }
                imp.refLibrary[key] = ver;
                imp.refSeq[key] = ++imp.seq;
            }
            // reference verdict(s)
            std::vector<std::string> multi;
            for (auto &kv : served) {
                if (kv.second.size() > 1) { // (a file the library holds under the spelling asked for is not opened at all)
                    multi.push_back(kv.first);
                }
            }
            std::set<Verdict> expected, expectedLenient; // lenient: only what the importer visits in library models counts (C07-K1)
            std::string why;
            std::set<std::string> needed;
            size_t combos = 1;
            for (auto &m : multi) {
                combos *= served[m].size();
            }
            bool skipOracle = combos > 16;
            for (size_t combo = 0; combo < combos && !skipOracle; ++combo) {
                std::map<std::string, int> choice;
                size_t rest = combo;
                for (auto &m : multi) {
                    auto &set = served[m];
                    auto it = set.begin();
                    std::advance(it, long(rest % set.size()));
                    rest /= set.size();
                    choice[m] = *it;
                }
                FileVersion absent;
                absent.load = Load::ABSENT;
                absent.tag = "absent";
                View view = [&](const std::string &np) -> const FileVersion * {
                    if (np.compare(0, 5, "href:") == 0) {
                        auto hi = libRawAtStart.find(np.substr(5));
                        return hi != libRawAtStart.end() ? &w.vfs.versions[size_t(hi->second)] : nullptr;
                    }
                    if (np.compare(0, 4, "raw:") == 0) {
                        auto ri = libRawAtStart.find(np.substr(4));
                        return ri != libRawAtStart.end() ? &w.vfs.versions[size_t(ri->second)] : nullptr;
                    }
                    auto ci = choice.find(np);
                    int id = -3;
                    if (ci != choice.end()) {
                        id = ci->second;
                    } else {
                        auto si = served.find(np);
                        if (si != served.end()) {
                            id = *si->second.begin();
                        }
                    }
                    if (id == -3) {
                        return w.vfs.at(np);
                    }
                    if (id < 0) {
                        return nullptr;
                    }
                    return &w.vfs.versions[size_t(id)];
                };
                RefResult rr = referenceResolve(c.rootSpec, view, imp.strict);
                expected.insert(rr.verdict);
                expectedLenient.insert(referenceResolve(c.rootSpec, view, imp.strict, true).verdict);
                if (why.empty()) {
                    why = rr.why;
                }
                needed.insert(rr.pathsNeeded.begin(), rr.pathsNeeded.end());
            }
            bool exact = !stale && !skipOracle;
            std::string tags = faultTags(w, needed, versionsServed) + (inflightFired ? ",inflight" : "") + sharedTag(c) + (stale ? ",stale-library" : "");
            if (!tags.empty() && tags[0] == ',') {
                tags = tags.substr(1);
            }
            ctx.tags(tags);
            ctx.ev("RESOLVE task " + str(t) + " -> " + str(real) + " issues=" + str(imp.importer->issueCount()) + " lib=" + str(imp.importer->libraryCount()) + " opens=" + str(w.vfs.log.size()) + " expected=" + (expected.count(Verdict::SAT) ? "S" : "") + (expected.count(Verdict::UNSAT) ? "U" : "") + (expected.count(Verdict::UNDETERMINED) ? "?" : "") + (exact ? "" : " inexact") + " tags=" + tags);
            checkLogger(ctx, imp.importer, "importer", "resolveImports", !real);
            bool unresolved = c.root->hasUnresolvedImports();
            if (stale) {
                ctx.count("resolve_with_stale_library");
            } else if (skipOracle) {
                ctx.count("resolve_oracle_skipped");
            } else {
                ctx.count("resolve_verdicts_checked");
                ctx.nontrivial = ctx.nontrivial || !tags.empty();
                bool undetermined = expected.count(Verdict::UNDETERMINED) != 0;
                std::string structural = (real && unresolved) ? firstUnresolved(c.root) : std::string();
                bool knownShape = structural == "unfetched-units-import-in-library-model";
                bool k1Variant = false;
                if (undetermined) {
                    ctx.count("resolve_undetermined");
                    // (only termination is claimed for the verdict; but a resolution that says true leaves nothing unresolved)
                    if (real && unresolved && !knownShape && firstUnresolved(c.root) == "closure-fully-linked") {
                        ctx.violate("C07", "resolved-but-has-unresolved-imports", "closure-fully-linked,cyclic-ordinary-units", "resolveImports returned true and every import of the closure has its model, but Model::hasUnresolvedImports() is true");
                        return;
                    }
                } else if (real && expected.count(Verdict::SAT) == 0 && !knownShape && expectedLenient.count(Verdict::SAT) != 0) {
                    // unsatisfiable only through a units import that the importer does not visit in a library model: the listed
                    // finding C07-K1 in another guise (the unvisited import is broken instead of merely unfetched) - the run goes on
                    ctx.violate("C07", "resolve-true-but-unsatisfiable", "units-import-of-library-model-not-visited", "resolveImports returned true although an import cannot be satisfied: " + why, true);
                    ctx.count("resolve_true_broken_units_import_of_library_model_not_visited");
                    exact = false;
                    k1Variant = true;
                } else if (real && expected.count(Verdict::SAT) == 0 && !knownShape) {
                    ctx.violate("C07", "resolve-true-but-unsatisfiable", tags, "resolveImports returned true although an import cannot be satisfied: " + why);
                    return;
                } else if (!real && expected.count(Verdict::UNSAT) == 0) {
                    std::string d = imp.importer->issueCount() > 0 ? imp.importer->issue(imp.importer->issueCount() - 1)->description() : "";
                    ctx.violate("C07", "resolve-false-but-satisfiable", tags, "resolveImports returned false although every transitive import can be satisfied; last issue: " + d);
                    return;
                }
                // (only when the file layer showed one consistent world during the call: with in-flight changes served to
                // different opens the model may legitimately be linked to a mixture of versions)
                if (real && !undetermined && unresolved && expected.size() == 1 && !k1Variant) { // (what K1 left unvisited may also be left unresolved)
                    // Which import of the closure was left unresolved?  (walks the real objects the way the closure is defined)
                    std::string where = structural;
                    ctx.violate("C07", "resolved-but-has-unresolved-imports", structural,
                                "resolveImports returned true but Model::hasUnresolvedImports() is still true; first unresolved import of the closure: " + where, true);
                    ctx.count("resolve_true_left_units_import_unfetched");
                    exact = false; // the run continues past a listed finding: no flatten expectation from this call
                }
            }
            if (!real) {
                ctx.count("resolve_false");
                bool named = false;
                size_t errors = imp.importer->errorCount();
                for (size_t i = 0; i < imp.importer->issueCount(); ++i) {
                    named = named || issueNamesAnImport(imp.importer->issue(i));
                }
                if (imp.importer->issueCount() == 0) {
                    ctx.violate("C07", "resolve-false-without-issue", tags, "resolveImports returned false with an empty issue list");
                    return;
                }
                if (!named) {
                    ctx.violate("C07", "resolve-false-issue-not-on-import", tags, "resolveImports returned false but no issue is attached to an import (source, importing units or importing component); first: " + imp.importer->issue(0)->description());
                    return;
                }
                ctx.count(errors > 0 ? "resolve_false_with_error" : "resolve_false_without_error_level_issue");
                // a failure that comes from a file that cannot be had leaves an import without its model: the model still
                // has unresolved imports, wherever in the closure the file is needed
                if (exact && combos == 1 && expected.size() == 1 && expected.count(Verdict::UNSAT) != 0 && !unresolved
                    && (why.compare(0, 12, "missing file") == 0 || why.compare(0, 11, "cannot open") == 0 || why.compare(0, 15, "not well-formed") == 0)) {
                    ctx.violate("C07", "unresolvable-but-no-unresolved-imports", tags, "resolveImports returned false and a file of the closure cannot be had (" + why + "), but Model::hasUnresolvedImports() is false");
                    return;
                }
                // what is reported is what is wrong: a cycle is not reported where no file, in any version it ever had,
                // leads back to itself (an import that fails for another reason must not leave a trail that makes the next
                // one look like a loop)
                for (size_t i = 0; i < imp.importer->issueCount(); ++i) {
                    if (imp.importer->issue(i)->description().find("Cyclic dependencies") != std::string::npos) {
                        if (worldIsAcyclic(w.vfs, c.rootSpec)) {
                            ctx.violate("C07", "cycle-reported-in-acyclic-world", tags, "resolveImports reports a dependency cycle although no file of this world ever imported, directly or indirectly, from itself: " + imp.importer->issue(i)->description().substr(0, 300));
                            return;
                        }
                        ctx.count("resolve_cycle_reported_in_a_world_with_a_cycle");
                        break;
                    }
                }
            } else {
                ctx.count("resolve_true");
            }
            c.haveVerdict = exact && expected.size() == 1;
            c.lastReal = real;
            c.lastRef = *expected.begin();
            c.lastExact = exact;
            // everyone else sharing this importer may have lost their model links? No: links are per model. But the shared library changed.
            ctx.state(fnv(str(real) + "|" + str(imp.importer->libraryCount()) + "|" + tags + "|" + str(unresolved)));
            continue;
        }
        if (s.op == "FLATTEN") {
            ctx.begin(stepNo, "FLATTEN", "");
            std::string before = dumpModel(c.root, dumpNoLinks);
            std::vector<std::string> libBefore;
            for (size_t i = 0; i < imp.importer->libraryCount(); ++i) {
                libBefore.push_back(dumpModel(imp.importer->library(i), dumpNoLinks));
            }
            bool unresolvedBefore = c.root->hasUnresolvedImports();
            auto flat = imp.importer->flattenModel(c.root);
            ctx.count("flatten_calls");
            ctx.ev("FLATTEN task " + str(t) + " -> " + (flat ? "model" : "null") + " issues=" + str(imp.importer->issueCount()));
            checkLogger(ctx, imp.importer, "importer", "flattenModel", flat == nullptr);
            std::string tags = c.haveVerdict ? "" : "no-verdict";
            if (flat == nullptr) {
                ctx.count("flatten_null");
                if (imp.importer->issueCount() == 0) {
                    ctx.violate("C07", "flatten-null-without-issue", tags, "flattenModel returned null with an empty issue list");
                    return;
                }
                if (c.haveVerdict && c.lastReal && c.lastRef == Verdict::SAT && !unresolvedBefore) {
                    ctx.violate("C07", "flatten-null-although-resolved", tags, "flattenModel returned null for a fully resolved, fully defined model: " + imp.importer->issue(0)->description());
                    return;
                }
            } else {
                ctx.count("flatten_model");
                ctx.nontrivial = true;
                if (flat->hasImports()) {
                    ctx.violate("C07", "flatten-left-imports", tags, "flattenModel returned a model that still has imports");
                    return;
                }
                if (unresolvedBefore) {
                    ctx.violate("C07", "flatten-succeeded-on-unresolved-model", tags, "flattenModel returned a model although hasUnresolvedImports() was true");
                    return;
                }
                checkLogger(ctx, imp.importer, "importer", "flattenModel(success)", false);
            }
            if (dumpModel(c.root, dumpNoLinks) != before) {
                ctx.violate("C12", "flatten-mutated-its-input", "", "the model passed to flattenModel dumps differently afterwards");
                return;
            }
            for (size_t i = 0; i < imp.importer->libraryCount() && i < libBefore.size(); ++i) {
                if (dumpModel(imp.importer->library(i), dumpNoLinks) != libBefore[i]) {
                    ctx.violate("C12", "flatten-mutated-a-library-model", "", "library model '" + imp.importer->key(i) + "' dumps differently after flattenModel");
                    return;
                }
            }
            continue;
        }
        if (s.op == "QUERY") {
            ctx.begin(stepNo, "QUERY", "");
            bool a = c.root->hasUnresolvedImports(), b = c.root->hasImports(), d = c.root->isDefined();
            auto req = c.root->importRequirements();
            ctx.ev("QUERY " + str(a) + str(b) + str(d) + " req=" + str(req.size()));
            // asking the library about URLs (known or not) is a question, not an edit
            {
                size_t before = imp.importer->libraryCount();
                for (auto &f : w.pristine.files) {
                    for (const std::string &key : {f.path, relativeDir(w.vfs.cwd, f.dir) + f.path.substr(f.dir.size()), std::string("no_such_dir/") + f.path.substr(f.dir.size())}) {
                        auto m = imp.importer->library(key);
                        bool held = imp.refLibrary.count(key) != 0;
                        if ((m != nullptr) != held) {
                            ctx.violate("C07", "library-lookup-incoherent", held ? "key-held" : "key-not-held", "library('" + key + "') returned " + (m != nullptr ? "a model" : "null") + " but the library " + (held ? "holds" : "does not hold") + " that key");
                            return;
                        }
                    }
                }
                if (imp.importer->libraryCount() != before) {
                    ctx.violate("C07", "library-lookup-changed-library", "", "library(key) lookups changed libraryCount() from " + str(before) + " to " + str(imp.importer->libraryCount()));
                    return;
                }
                ctx.count("library_lookups_by_key");
            }
            for (size_t i = 0; i <= imp.importer->libraryCount(); ++i) {
                auto m = imp.importer->library(i);
                if ((m == nullptr) != (i >= imp.importer->libraryCount())) {
                    ctx.violate("C07", "library-index-incoherent", "", "library(i) null-ness disagrees with libraryCount()");
                    return;
                }
            }
            continue;
        }
    }
    libcellml::verif::openFile = nullptr;
    gVfs = nullptr;
}

std::vector<Plan> simplify(const Plan &p)
{
    std::vector<Plan> out;
    if (p.c("maxfiles", 5) > 2) {
        Plan q = p;
        q.cfg["maxfiles"] = p.c("maxfiles", 5) - 1;
        out.push_back(q);
    }
    // turn in-flight changes into plain ones
    for (size_t i = 0; i < p.steps.size(); ++i) {
        if (p.steps[i].op == "ARM") {
            Plan q = p;
            q.steps[i].op = "FS";
            q.steps[i].a.erase(q.steps[i].a.begin());
            out.push_back(q);
        }
        if (p.steps[i].op == "SHARE") {
            Plan q = p;
            q.steps[i].op = "IMPORTER";
            q.steps[i].a = {1};
            out.push_back(q);
        }
    }
    return out;
}

} // namespace

void registerImportEngine()
{
    Engine e;
    e.name = "import";
    e.flavour = "asan";
    e.generate = generate;
    e.execute = execute;
    e.simplify = simplify;
    e.timeoutS = 20;
    e.crashProperty = "C07";
    registerEngine(e);
}
