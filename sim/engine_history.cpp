// Engine `history` (C09, C11): one client issues an arbitrary history of public object-model calls - add, remove, take,
// replace, move, equivalences, attribute setters, clone, DROP of the simulator's own references - and bad-argument calls on
// the services.  Before each call the real forest is snapshotted through public getters, a per-operation specification
// computes the permitted after-snapshots, and the snapshot observed afterwards must be one of them.
#include <cstring>

#include "history_spec.h"
#include "history_svc.h"
#include "history_world.h"
#include "modelgen.h"

using namespace hist;

namespace {

enum Cat { C_CONT, C_OBJ, C_SVC };
enum Nature { N_QUERY, N_UNLINK, N_EDIT, N_DROP };

struct Entry
{
    std::string name;
    Cat cat = C_OBJ;
    unsigned mask[2] = {0, 0};
    Fam fam = F_COMP;
    Form form = ADD;
    size_t svc = 0;
};

struct Tables
{
    std::vector<Entry> entries;
    std::vector<SvcEntry> svc;
    std::map<std::string, size_t> byName;
    std::vector<std::pair<size_t, int>> walk; // (entry, slot) pairs that can take a bad argument
};

const Tables &tables()
{
    static Tables t;
    if (!t.entries.empty()) {
        return t;
    }
    for (int fam = 0; fam < NFAM; ++fam) {
        for (int f = 0; f < NFORM; ++f) {
            if (formExists(Fam(fam), Form(f))) {
                Entry e;
                e.name = formName(Fam(fam), Form(f));
                e.cat = C_CONT;
                e.fam = Fam(fam);
                e.form = Form(f);
                e.mask[0] = formMask(Form(f), 0);
                e.mask[1] = formMask(Form(f), 1);
                t.entries.push_back(e);
            }
        }
    }
    struct O
    {
        const char *name;
        unsigned m0, m1;
    };
    static const O objs[] = {
        {"Variable.addEquivalence#2", mEntity, mEntity}, {"Variable.addEquivalence#4", mEntity, mEntity}, {"Variable.removeEquivalence", mEntity, mEntity},
        {"Variable.removeAllEquivalences", 0, 0}, {"Variable.equivalentVariable#index", mIndex, 0}, {"Variable.hasEquivalentVariable", mN | mP, 0},
        {"Variable.equivalenceIds", mN, mN}, {"Variable.editEquivalenceIds", 0, 0}, {"Entity.setId", 0, 0}, {"Entity.equals", mN | mP, 0}, {"NamedEntity.setName", 0, 0},
        {"ComponentEntity.setEncapsulationId", 0, 0}, {"Component.setMath", 0, 0}, {"Variable.setUnits#name", 0, 0}, {"Variable.setUnits#units", mEntity, 0},
        {"Variable.removeUnits", 0, 0}, {"Variable.setInitialValue#string", 0, 0}, {"Variable.setInitialValue#variable", mEntity, 0}, {"Variable.setInterfaceType", 0, 0},
        {"Units.addUnit", 0, 0}, {"Units.removeUnit#index", mIndex, 0}, {"Units.removeUnit#reference", mU, 0}, {"Units.removeAllUnits", 0, 0}, {"Units.setUnitId", mIndex, 0},
        {"Units.unitAttributes#index", mIndex, 0}, {"Units.compare#static", mEntity, mEntity}, {"Reset.setOrder", 0, 0}, {"Reset.removeOrder", 0, 0},
        {"Reset.setVariable", mEntity, 0}, {"Reset.setTestVariable", mEntity, 0}, {"Reset.setValues", 0, 0}, {"ImportSource.setUrl", 0, 0}, {"ImportSource.setModel", mN | mP, 0},
        {"ImportSource.removeModel", 0, 0}, {"ImportedEntity.setImportSource", mN | mP | mO, 0}, {"ImportedEntity.setImportReference", 0, 0}, {"Model.clean", 0, 0}};
    for (auto &o : objs) {
        Entry e;
        e.name = o.name;
        e.cat = C_OBJ;
        e.mask[0] = o.m0;
        e.mask[1] = o.m1;
        t.entries.push_back(e);
    }
    t.svc = buildSvcTable();
    for (size_t i = 0; i < t.svc.size(); ++i) {
        Entry e;
        e.name = t.svc[i].name;
        e.cat = C_SVC;
        e.mask[0] = t.svc[i].mask[0];
        e.mask[1] = t.svc[i].mask[1];
        e.svc = i;
        t.entries.push_back(e);
    }
    for (size_t i = 0; i < t.entries.size(); ++i) {
        t.byName[t.entries[i].name] = i;
        for (int slot = 0; slot < 2; ++slot) {
            if (t.entries[i].mask[slot] != 0) {
                t.walk.push_back({i, slot});
            }
        }
    }
    return t;
}

// counter name of a badness kind (no '=' inside: the protocol splits counters at it)
std::string faultName(int bad)
{
    std::string t = BAD_TAG[bad];
    std::replace(t.begin(), t.end(), '=', '-');
    return "fault_" + t;
}

struct Prepared
{
    bool skip = false;
    std::string op, tags, args;
    Nature nature = N_EDIT;
    int bad = B_GOOD;
    std::function<std::vector<Outcome>(const Snap &)> spec;
    std::function<std::string()> call;
};

std::string joinTags(const std::vector<std::string> &t)
{
    std::string s;
    for (auto &x : t) {
        if (!x.empty()) {
            s += (s.empty() ? "" : ",") + x;
        }
    }
    return s;
}

struct Exec
{
    const Plan &plan;
    Ctx &ctx;
    World w;
    Live live;
    int stepNo = -1;

    Exec(const Plan &p, Ctx &c)
        : plan(p)
        , ctx(c)
    {
    }

    // ------------------------------------------------------------ universe

    void buildUniverse()
    {
        Rng r(mixSeed(uint64_t(plan.c("useed", 1)), "history-universe", 0));
        long nm = plan.c("nm", 1), nc = plan.c("nc", 3), nv = plan.c("nv", 3), nu = plan.c("nu", 2), nr = plan.c("nr", 1), ni = plan.c("ni", 1);
        bool look = plan.c("lookalikes", 0) != 0;
        bool wild = plan.c("wildeq", long(plan.c("useed", 1) % 4 == 0)) != 0;
        std::vector<ModelPtr> models;
        std::vector<UnitsPtr> units;
        std::vector<ImportSourcePtr> imps;
        std::vector<ComponentPtr> comps;
        std::vector<VariablePtr> vars;
        std::vector<ResetPtr> resets;
        for (long i = 0; i < nm; ++i) {
            auto m = Model::create("m" + str(i));
            if (r.chance(1, 2)) {
                m->setId("mid" + str(i));
            }
            if (r.chance(1, 2)) {
                m->setEncapsulationId("menc" + str(i));
            }
            models.push_back(m);
            w.add(K_MODEL, m);
        }
        for (long i = 0; i < ni; ++i) {
            auto is = ImportSource::create();
            is->setUrl("imp" + str(i) + ".cellml");
            if (r.chance(1, 2)) {
                is->setId("iid" + str(i));
            }
            imps.push_back(is);
            w.add(K_IMP, is);
        }
        for (long i = 0; i < nu; ++i) {
            auto u = Units::create(i == 2 && r.chance(1, 2) ? "" : "u" + str(i));
            if (!u->name().empty() || r.chance(1, 2)) {
                u->addUnit("second", "milli", double(i + 1), 1.0, r.chance(1, 3) ? "uid" + str(i) : "");
            }
            if (i > 0 && r.chance(1, 2)) {
                u->addUnit("u" + str(i - 1));
            }
            if (r.chance(1, 3)) {
                u->setId("usid" + str(i));
            }
            if (!imps.empty() && r.chance(1, 4)) {
                u->setImportSource(r.pick(imps));
                u->setImportReference("uref" + str(i));
            }
            if (i == 0 || r.chance(3, 4)) {
                models[i == 0 ? 0 : r.below(models.size())]->addUnits(u);
            }
            units.push_back(u);
            w.add(K_UNITS, u);
        }
        for (long i = 0; i < nc; ++i) {
            auto c = Component::create(i >= 2 && r.chance(1, 6) ? "" : "c" + str(i));
            if (r.chance(1, 3)) {
                c->setId("cid" + str(i));
            }
            if (r.chance(1, 3)) {
                c->setEncapsulationId("cenc" + str(i));
            }
            if (r.chance(1, 3) && !c->name().empty()) {
                if ((plan.c("useed", 1) + i) % 3 == 0) {
                    // math that names units in a cn element (units of the model, or units that exist nowhere); decided
                    // without a draw so that recorded plans keep the universes they were found in
                    std::string un = (plan.c("useed", 1) / 3) % 2 == 0 ? "u0" : "units_defined_nowhere";
                    c->setMath("<math xmlns=\"http://www.w3.org/1998/Math/MathML\" xmlns:cellml=\"http://www.cellml.org/cellml/2.0#\"><apply><eq/><ci>c" + str(i) + "</ci><cn cellml:units=\"" + un + "\">1</cn></apply></math>");
                } else {
                    c->setMath("<math xmlns=\"http://www.w3.org/1998/Math/MathML\"><ci>c" + str(i) + "</ci></math>");
                }
            }
            if (!imps.empty() && i > 0 && r.chance(1, 4)) {
                c->setImportSource(r.pick(imps));
                c->setImportReference("cref" + str(i));
            }
            if (i == 0) {
                models[0]->addComponent(c);
            } else if (i == 1) {
                comps[0]->addComponent(c);
            } else {
                unsigned k = unsigned(r.below(6));
                if (k < 3) {
                    r.pick(models)->addComponent(c);
                } else if (k < 5) {
                    r.pick(comps)->addComponent(c);
                }
            }
            comps.push_back(c);
            w.add(K_COMP, c);
        }
        for (long i = 0; i < nv; ++i) {
            auto v = Variable::create("v" + str(i));
            unsigned k = unsigned(r.below(6));
            if (k < 3) {
                v->setUnits(k == 0 ? "second" : "volt");
            } else if (k < 5 && !units.empty()) {
                v->setUnits(r.pick(units));
            }
            if (r.chance(1, 3)) {
                v->setInitialValue(double(i));
            }
            if (r.chance(1, 2)) {
                v->setInterfaceType(r.chance(1, 2) ? "public" : "public_and_private");
            }
            if (r.chance(1, 3)) {
                v->setId("vid" + str(i));
            }
            bool eqstress = plan.c("eqstress", 0) != 0;
            if (i < 2 && !comps.empty()) {
                comps[0]->addVariable(v);
            } else if (!comps.empty() && r.chance(eqstress ? 1 : 5, eqstress ? 2 : 6)) {
                // (equivalence stress: half of the variables are in no component, so that dropping the handle destroys them)
                r.pick(comps)->addVariable(v);
            }
            vars.push_back(v);
            w.add(K_VAR, v);
        }
        for (long i = 0; i < nr; ++i) {
            auto rs = r.chance(2, 3) ? Reset::create(int(i + 1)) : Reset::create();
            if (!vars.empty()) {
                if (r.chance(4, 5)) {
                    rs->setVariable(r.pick(vars));
                }
                if (r.chance(4, 5)) {
                    rs->setTestVariable(r.pick(vars));
                }
            }
            if (r.chance(1, 2)) {
                rs->setTestValue("<math xmlns=\"http://www.w3.org/1998/Math/MathML\"><cn>" + str(i) + "</cn></math>");
                rs->setResetValueId("rvid" + str(i));
            }
            if (r.chance(1, 3)) {
                rs->setId("rid" + str(i));
            }
            if (i == 0 && !comps.empty()) {
                comps[0]->addReset(rs);
            } else if (!comps.empty() && r.chance(5, 6)) {
                r.pick(comps)->addReset(rs);
            }
            resets.push_back(rs);
            w.add(K_RESET, rs);
        }
        for (long i = 0; i < (plan.c("eqstress", 0) != 0 ? 3 * nv : nv / 2) && vars.size() >= 2; ++i) {
            auto a = r.pick(vars), b = r.pick(vars);
            if (a == b) {
                continue;
            }
            auto top = [](const VariablePtr &v) {
                ParentedEntityPtr e = v->parent();
                while (e != nullptr && e->parent() != nullptr) {
                    e = e->parent();
                }
                return std::dynamic_pointer_cast<Model>(e);
            };
            if ((top(a) == nullptr || top(a) != top(b)) && !wild) {
                continue; // equivalences that leave the model are kept for a quarter of the universes
            }
            if (sim::wouldJoinSiblings(a, b)) {
                continue; // two variables of one component in one equivalence class: no CellML document can express that
            }
            if (r.chance(1, 2)) {
                Variable::addEquivalence(a, b);
                std::string cid = sim::connectionIdBetween(a, b);
                if (!cid.empty()) {
                    Variable::setEquivalenceConnectionId(a, b, cid);
                }
            } else {
                // one connection id per pair of components, as in a CellML document
                std::string cid = sim::connectionIdBetween(a, b);
                Variable::addEquivalence(a, b, "map" + str(i), cid.empty() ? "conn" + str(i) : cid);
            }
        }
        if (look) {
            // twins: same attributes as an entity that has a parent, listed right behind it in the same container
            ctx.count("lookalike_runs");
            size_t n = w.h.size();
            int made = 0;
            bool again = false; // a second look-alike of the same entity (three of a kind)
            for (size_t i = 0; i < n && made < 5; again ? i : ++i) {
                auto e = w.ent(int(i));
                auto pe = std::dynamic_pointer_cast<ParentedEntity>(e);
                if (pe == nullptr || pe->parent() == nullptr || (!again && !r.chance(1, 2))) {
                    again = false;
                    continue;
                }
                again = !again && r.chance(1, 3);
                auto t = twinOf(e);
                bool deep = false;
                if (auto ce = std::dynamic_pointer_cast<Component>(e)) {
                    if (r.chance(1, 2)) {
                        t = ce->clone(); // a look-alike with the same content (variables, resets, children), not only the same attributes
                        deep = true;
                    }
                }
                if (t == nullptr) {
                    continue;
                }
                auto parent = pe->parent();
                if (r.chance(1, 2)) {
                    // a cousin instead of a sibling: the twin goes into another container of the same kind, so that a
                    // search below a common ancestor meets both
                    bool wantModel = std::dynamic_pointer_cast<Units>(t) != nullptr;
                    std::vector<ParentedEntityPtr> others;
                    for (size_t j = 0; j < n; ++j) {
                        auto cand = std::dynamic_pointer_cast<ParentedEntity>(w.ent(int(j)));
                        if (cand == nullptr || cand == parent || cand == pe) {
                            continue;
                        }
                        bool isModel = std::dynamic_pointer_cast<Model>(cand) != nullptr;
                        bool isComp = std::dynamic_pointer_cast<Component>(cand) != nullptr;
                        if (wantModel ? !isModel : !isComp) {
                            continue;
                        }
                        // never below the entity the twin copies (a component twin inside its original's subtree is fine, but keep it simple)
                        auto comp = std::dynamic_pointer_cast<Component>(cand);
                        auto orig = std::dynamic_pointer_cast<Component>(e);
                        if (comp != nullptr && orig != nullptr && (comp == orig || comp->hasAncestor(orig))) {
                            continue;
                        }
                        others.push_back(cand);
                    }
                    if (!others.empty()) {
                        parent = others[r.below(others.size())];
                        ctx.count("lookalike_cousins_made");
                    }
                }
                if (auto c = std::dynamic_pointer_cast<Component>(t)) {
                    std::dynamic_pointer_cast<ComponentEntity>(parent)->addComponent(c);
                } else if (auto v = std::dynamic_pointer_cast<Variable>(t)) {
                    std::dynamic_pointer_cast<Component>(parent)->addVariable(v);
                } else if (auto u = std::dynamic_pointer_cast<Units>(t)) {
                    std::dynamic_pointer_cast<Model>(parent)->addUnits(u);
                } else if (auto rs = std::dynamic_pointer_cast<Reset>(t)) {
                    std::dynamic_pointer_cast<Component>(parent)->addReset(rs);
                }
                if (deep) {
                    std::vector<int> registered;
                    std::string shared;
                    registerTree(t, 0, true, registered, shared);
                    ctx.count("lookalike_deep_component_copies");
                } else {
                    w.add(w.h[i].kind, t);
                }
                ++made;
            }
        }
        long family = plan.c("family", 0);
        if (family != 0 && !models.empty()) {
            // three of a kind in different branches of the first model: a component X and two copies of it below two other
            // components; with family 2, X itself is then taken out of the model (an outsider with look-alikes inside)
            std::vector<ComponentPtr> inFirst;
            for (auto &c : comps) {
                if (owningModelOf(c) == models[0]) {
                    inFirst.push_back(c);
                }
            }
            if (inFirst.size() >= 3) {
                auto x = inFirst[r.below(inFirst.size())];
                std::vector<ComponentPtr> hosts;
                for (auto &c : inFirst) {
                    if (c != x && !c->hasAncestor(x)) {
                        hosts.push_back(c);
                    }
                }
                if (hosts.size() >= 2) {
                    size_t a = r.below(hosts.size()), b = (a + 1 + r.below(hosts.size() - 1)) % hosts.size();
                    for (size_t host : {a, b}) {
                        auto copy = x->clone();
                        hosts[host]->addComponent(copy);
                        std::vector<int> registered;
                        std::string shared;
                        registerTree(copy, 0, true, registered, shared);
                    }
                    if (family == 2) {
                        auto holder = std::dynamic_pointer_cast<ComponentEntity>(x->parent());
                        for (size_t i = 0; holder != nullptr && i < holder->componentCount(); ++i) {
                            if (holder->component(i) == x) {
                                holder->removeComponent(i);
                                break;
                            }
                        }
                    }
                    ctx.count(family == 2 ? "family_of_lookalikes_with_outsider" : "family_of_lookalikes_in_scope");
                }
            }
        }
    }

    static ModelPtr owningModelOf(const ComponentPtr &c)
    {
        ParentedEntityPtr p = c;
        for (int hops = 0; p != nullptr && hops < 64; ++hops) {
            if (auto m = std::dynamic_pointer_cast<Model>(p)) {
                return m;
            }
            p = p->parent();
        }
        return nullptr;
    }

    // ------------------------------------------------------------ argument resolution

    int pick(unsigned mask, long sel) const
    {
        auto l = w.live(mask);
        return l.empty() ? NONE : l[size_t(sel) % l.size()];
    }

    // A new entity for a bad-argument slot: never added, orphaned (its owner dies at once) or owned by another model.
    int fresh(Kind kind, int bad, int like)
    {
        std::string n = "fresh" + str(++w.freshCount);
        EntityPtr e = like >= 0 ? twinOf(w.ent(like)) : nullptr;
        if (e == nullptr) {
            switch (kind) {
            case K_MODEL: e = Model::create(n); break;
            case K_COMP: e = Component::create(n); break;
            case K_VAR: {
                auto v = Variable::create(n);
                v->setUnits("second");
                e = v;
                break;
            }
            case K_UNITS: {
                auto u = Units::create(n);
                u->addUnit("metre");
                e = u;
                break;
            }
            case K_RESET: e = Reset::create(7); break;
            default: {
                auto is = ImportSource::create();
                is->setUrl(n + ".cellml");
                e = is;
                break;
            }
            }
        }
        if (bad == B_ORPHAN || bad == B_OTHER_MODEL) {
            auto m = Model::create("other_" + n);
            auto c = Component::create("owner_" + n);
            m->addComponent(c);
            switch (kind) {
            case K_COMP: c->addComponent(std::dynamic_pointer_cast<Component>(e)); break;
            case K_VAR: c->addVariable(std::dynamic_pointer_cast<Variable>(e)); break;
            case K_RESET: c->addReset(std::dynamic_pointer_cast<Reset>(e)); break;
            case K_UNITS: m->addUnits(std::dynamic_pointer_cast<Units>(e)); break;
            case K_IMP: c->setImportSource(std::dynamic_pointer_cast<ImportSource>(e)); break;
            default: break;
            }
            if (bad == B_OTHER_MODEL) {
                w.add(K_MODEL, m);
                w.add(K_COMP, c);
            }
        }
        return w.add(kind, e);
    }

    int entityArg(Kind kind, long sel, int bad, bool badHere, int like = NONE, const std::vector<int> *preferred = nullptr)
    {
        if (badHere && bad == B_NULL) {
            return NONE;
        }
        if (badHere && (bad == B_PARENTLESS || bad == B_ORPHAN || bad == B_OTHER_MODEL)) {
            return fresh(kind, bad, like);
        }
        if (preferred != nullptr && !preferred->empty()) {
            return (*preferred)[size_t(sel) % preferred->size()];
        }
        return pick(1u << kind, sel);
    }

    std::string retOf(const EntityPtr &p) const { return p == nullptr ? "null" : hid(w.idOf(p)); }
    static std::string retOf(bool b) { return b ? "true" : "false"; }

    void adopt(const EntityPtr &p)
    {
        int id = w.idOf(p);
        if (id >= 0 && w.h[size_t(id)].strong == nullptr) {
            w.h[size_t(id)].strong = p;
        }
    }

    // ------------------------------------------------------------ container operations

    Prepared prepContainer(const Step &st, const Entry &en)
    {
        Prepared p;
        p.op = en.name;
        Fam fam = en.fam;
        Form form = en.form;
        long flags = st.arg(4);
        int slot = (flags & 4) != 0 ? 1 : 0;
        int bad = int(st.arg(3));
        if (bad <= B_GOOD || bad >= NBAD || ((en.mask[slot] >> bad) & 1u) == 0) {
            bad = B_GOOD;
        }
        p.bad = bad;
        unsigned targets = fam == F_COMP ? (1u << K_MODEL | 1u << K_COMP) : fam == F_UNITS ? 1u << K_MODEL : 1u << K_COMP;
        ContainerCall c;
        c.fam = fam;
        c.form = form;
        c.t = pick(targets, st.arg(0));
        if (c.t < 0) {
            p.skip = true;
            return p;
        }
        c.search = formSearches(fam, form) && (flags & 1) != 0;
        Snap cur = snapshot(w);
        std::vector<int> kids;
        for (int k : cur[size_t(c.t)].kids[fam]) {
            if (k >= 0) {
                kids.push_back(k);
            }
        }
        const std::vector<int> *pref = (flags & 2) != 0 ? &kids : nullptr;
        std::vector<int> withPeer;
        if ((flags & 16) != 0 && (formIsPtr(form) || formIsName(form))) {
            // aim at an entity that has a look-alike elsewhere in the scope of the call
            auto sc = scopeOf(cur, c.t, fam, c.search);
            std::map<std::string, int> count;
            for (int k : sc) {
                ++count[skeyOf(w.ent(k))];
            }
            for (int k : sc) {
                if (count[skeyOf(w.ent(k))] > 1) {
                    withPeer.push_back(k);
                }
            }
            if (st.arg(5) % 3 == 0) {
                // ... or at an entity outside the scope that has look-alikes inside it
                std::vector<int> outside;
                for (int k : w.live(1u << FAM_KIND[fam])) {
                    if (std::find(sc.begin(), sc.end(), k) == sc.end() && count.count(skeyOf(w.ent(k))) != 0) {
                        outside.push_back(k);
                    }
                }
                if (!outside.empty()) {
                    withPeer = outside;
                    ctx.count("container_call_aimed_at_outsider_with_lookalike_in_scope");
                }
            }
            if (!withPeer.empty()) {
                pref = &withPeer;
                ctx.count("container_call_aimed_at_entity_with_lookalike_in_scope");
            }
        }
        Kind ck = FAM_KIND[fam];
        int like = (flags & 8) != 0 && !kids.empty() ? kids[size_t(st.arg(1)) % kids.size()] : NONE;
        bool needX = form == ADD || formIsPtr(form) || formIsName(form);
        if (needX) {
            c.x = entityArg(ck, st.arg(1), bad, slot == 0, like, form == ADD ? nullptr : pref);
            if (c.x < 0 && !(bad == B_NULL && slot == 0) && bad != B_NAME) {
                p.skip = true;
                return p;
            }
        }
        if (formIsReplace(form)) {
            c.y = entityArg(ck, form == REP_IDX ? st.arg(1) : st.arg(5), bad, slot == 1, NONE, nullptr);
            if (c.y < 0 && !(bad == B_NULL && slot == 1)) {
                p.skip = true;
                return p;
            }
        }
        if (formIsIndex(form)) {
            size_t cnt = cur[size_t(c.t)].kids[fam].size();
            c.index = bad == B_IDX_COUNT ? cnt : bad == B_IDX_MAX ? size_t(-1) : cnt > 0 ? size_t(st.arg(2)) % cnt : 0;
        }
        if (formIsName(form)) {
            c.name = bad == B_NAME || c.x < 0 ? "no_such_name" : cur[size_t(c.x)].name;
        }
        if (fresh_made(cur)) {
            cur = snapshot(w);
        }
        // the excluded call: adding an entity to the container that already holds it
        auto scope = scopeOf(cur, c.t, fam, c.search);
        bool xInScope = c.x >= 0 && std::find(scope.begin(), scope.end(), c.x) != scope.end();
        if (form == ADD && c.x >= 0 && cur[size_t(c.x)].parent == c.t) {
            p.skip = true;
            return p;
        }
        std::vector<std::string> tags = {BAD_TAG[bad], slot == 1 && bad != B_GOOD ? "arg2" : ""};
        if (formIsPtr(form) && c.x >= 0) {
            std::string kx = skeyOf(w.ent(c.x));
            for (int k : scope) {
                if (k != c.x && skeyOf(w.ent(k)) == kx) {
                    if (!xInScope) {
                        c.alike.push_back(k);
                    }
                    tags.push_back(xInScope ? "lookalike-sibling" : "lookalike-in-scope");
                    break;
                }
            }
            if (!xInScope) {
                for (int k : scope) {
                    if (k != c.x && skeyOf(w.ent(k)) == kx && std::find(c.alike.begin(), c.alike.end(), k) == c.alike.end()) {
                        c.alike.push_back(k);
                    }
                }
                // C09 is about links, not about the equality relation (that is C10, not applicable here): a child that
                // the library's own equals() takes for equal to the argument, in either direction, is also a permitted
                // match.  (Component::equals() is not symmetric: existing tests pin that a component without variables
                // equals one with variables.)  Counted as a probe.
                for (int k : scope) {
                    if (k != c.x && std::find(c.alike.begin(), c.alike.end(), k) == c.alike.end()) {
                        auto ek = w.ent(k), ex = w.ent(c.x);
                        if (ek != nullptr && ex != nullptr && (ek->equals(ex) || ex->equals(ek))) {
                            c.alike.push_back(k);
                            ctx.count("probe_library_equals_looser_than_structural_equality");
                        }
                    }
                }
                if (bad == B_GOOD) {
                    tags.push_back("not-a-child");
                }
            }
        }
        if (formIsReplace(form) && c.y >= 0) {
            // replacing by an entity that the affected container already holds: the specification permits a refusal
            // (what the library does) or the move, never anything else
            for (int k : scope) {
                if (k == c.y) {
                    tags.push_back("replacement-already-in-scope");
                    break;
                }
            }
        }
        int moved = form == ADD ? c.x : formIsReplace(form) ? c.y : NONE;
        if (moved >= 0) {
            int old = cur[size_t(moved)].parent;
            if (old >= 0) {
                tags.push_back("moved");
                std::string km = skeyOf(w.ent(moved));
                for (int f = 0; f < NFAM; ++f) {
                    for (int k : cur[size_t(old)].kids[f]) {
                        if (k >= 0 && k != moved && w.h[size_t(k)].kind == w.h[size_t(moved)].kind && skeyOf(w.ent(k)) == km) {
                            tags.push_back("lookalike-in-old-parent");
                            f = NFAM;
                            break;
                        }
                    }
                }
            }
            if (fam == F_COMP) {
                int holder = form == ADD ? c.t : NONE;
                if (holder < 0 && formIsReplace(form)) {
                    auto outs = specContainer(cur, c);
                    if (outs.size() == 1 && outs[0].ret == "false" && c.y >= 0 && isAncestorOrSelf(cur, c.y, c.t)) {
                        tags.push_back("by-own-ancestor");
                    }
                }
                if (holder >= 0 && moved == holder) {
                    tags.push_back("into-itself");
                } else if (holder >= 0 && isAncestorOrSelf(cur, moved, holder)) {
                    tags.push_back("into-descendant");
                }
            }
        }
        p.tags = joinTags(tags);
        p.nature = formIsQuery(form) ? N_QUERY : N_UNLINK;
        p.args = "t=" + hid(c.t) + " x=" + hid(c.x) + " y=" + hid(c.y) + (formIsIndex(form) ? " index=" + (c.index == size_t(-1) ? std::string("max") : str(c.index)) : "")
                 + (formIsName(form) ? " name=" + c.name : "") + (c.search ? " search" : "");
        p.spec = [c](const Snap &b) { return specContainer(b, c); };
        p.call = [this, c]() { return callContainer(c); };
        return p;
    }

    bool fresh_made(const Snap &cur) const { return cur.size() != w.h.size(); }

    std::string callContainer(const ContainerCall &c)
    {
        size_t i = c.index;
        const std::string &n = c.name;
        bool se = c.search;
        EntityPtr got;
        bool returnsPtr = c.form == TAKE_IDX || c.form == TAKE_NAME || c.form == GET_IDX || c.form == GET_NAME;
        bool b = false;
        if (c.fam == F_COMP) {
            auto t = w.as<ComponentEntity>(c.t);
            auto x = w.as<Component>(c.x), y = w.as<Component>(c.y);
            switch (c.form) {
            case ADD: b = t->addComponent(x); break;
            case REM_IDX: b = t->removeComponent(i); break;
            case REM_NAME: b = t->removeComponent(n, se); break;
            case REM_PTR: b = t->removeComponent(x, se); break;
            case REM_ALL: t->removeAllComponents(); return "";
            case TAKE_IDX: got = t->takeComponent(i); break;
            case TAKE_NAME: got = t->takeComponent(n, se); break;
            case GET_IDX: got = t->component(i); break;
            case GET_NAME: got = t->component(n, se); break;
            case HAS_NAME: b = t->containsComponent(n, se); break;
            case HAS_PTR: b = t->containsComponent(x, se); break;
            case REP_IDX: b = t->replaceComponent(i, y); break;
            case REP_NAME: b = t->replaceComponent(n, y, se); break;
            default: b = t->replaceComponent(x, y, se); break;
            }
        } else if (c.fam == F_VAR) {
            auto t = w.as<Component>(c.t);
            auto x = w.as<Variable>(c.x);
            switch (c.form) {
            case ADD: b = t->addVariable(x); break;
            case REM_IDX: b = t->removeVariable(i); break;
            case REM_NAME: b = t->removeVariable(n); break;
            case REM_PTR: b = t->removeVariable(x); break;
            case REM_ALL: t->removeAllVariables(); return "";
            case TAKE_IDX: got = t->takeVariable(i); break;
            case TAKE_NAME: got = t->takeVariable(n); break;
            case GET_IDX: got = t->variable(i); break;
            case GET_NAME: got = t->variable(n); break;
            case HAS_NAME: b = t->hasVariable(n); break;
            default: b = t->hasVariable(x); break;
            }
        } else if (c.fam == F_RESET) {
            auto t = w.as<Component>(c.t);
            auto x = w.as<Reset>(c.x);
            switch (c.form) {
            case ADD: b = t->addReset(x); break;
            case REM_IDX: b = t->removeReset(i); break;
            case REM_PTR: b = t->removeReset(x); break;
            case REM_ALL: t->removeAllResets(); return "";
            case TAKE_IDX: got = t->takeReset(i); break;
            case GET_IDX: got = t->reset(i); break;
            default: b = t->hasReset(x); break;
            }
        } else {
            auto t = w.as<Model>(c.t);
            auto x = w.as<Units>(c.x), y = w.as<Units>(c.y);
            switch (c.form) {
            case ADD: b = t->addUnits(x); break;
            case REM_IDX: b = t->removeUnits(i); break;
            case REM_NAME: b = t->removeUnits(n); break;
            case REM_PTR: b = t->removeUnits(x); break;
            case REM_ALL: t->removeAllUnits(); return "";
            case TAKE_IDX: got = t->takeUnits(i); break;
            case TAKE_NAME: got = t->takeUnits(n); break;
            case GET_IDX: got = t->units(i); break;
            case GET_NAME: got = t->units(n); break;
            case HAS_NAME: b = t->hasUnits(n); break;
            case HAS_PTR: b = t->hasUnits(x); break;
            case REP_IDX: b = t->replaceUnits(i, y); break;
            case REP_NAME: b = t->replaceUnits(n, y); break;
            default: b = t->replaceUnits(x, y); break;
            }
        }
        if (!returnsPtr) {
            return retOf(b);
        }
        if (c.form == TAKE_IDX || c.form == TAKE_NAME) {
            adopt(got); // the caller of take...() now owns the object
        }
        return retOf(got);
    }

    // ------------------------------------------------------------ equivalences, attributes, queries

    Prepared prepObject(const Step &st, const Entry &en)
    {
        Prepared p;
        p.op = en.name;
        const std::string &op = en.name;
        long flags = st.arg(4);
        int slot = (flags & 4) != 0 ? 1 : 0;
        int bad = int(st.arg(3));
        if (bad <= B_GOOD || bad >= NBAD || ((en.mask[slot] >> bad) & 1u) == 0) {
            bad = B_GOOD;
        }
        p.bad = bad;
        p.tags = joinTags({BAD_TAG[bad], slot == 1 && bad != B_GOOD ? "arg2" : ""});
        long val = st.arg(5);
        std::string sval = val % 4 == 0 ? "" : "s" + str(val % 4);
        auto need = [&](int id) {
            if (id < 0) {
                p.skip = true;
            }
            return id;
        };
        auto edit = [](int t) {
            return [t](const Snap &b) {
                Snap s = b;
                s[size_t(t)].digest = "*";
                return std::vector<Outcome> {Outcome {s, ""}};
            };
        };
        auto argOk = [&](int id, int atSlot) { return id >= 0 || (bad == B_NULL && slot == atSlot); };

        if (op == "Variable.addEquivalence#2" || op == "Variable.addEquivalence#4" || op == "Variable.removeEquivalence") {
            int v1 = entityArg(K_VAR, st.arg(0), bad, slot == 0), v2 = entityArg(K_VAR, st.arg(1), bad, slot == 1);
            if (!argOk(v1, 0) || !argOk(v2, 1)) {
                p.skip = true;
                return p;
            }
            bool add = op != "Variable.removeEquivalence", four = op == "Variable.addEquivalence#4";
            if (add && v1 >= 0 && v2 >= 0 && w.as<Variable>(v1) != nullptr && w.as<Variable>(v2) != nullptr && sim::wouldJoinSiblings(w.as<Variable>(v1), w.as<Variable>(v2))) {
                p.skip = true; // an equivalence class with two variables of one component cannot be expressed by a document
                return p;
            }
            p.args = "v1=" + hid(v1) + " v2=" + hid(v2);
            p.spec = [=](const Snap &b) {
                std::vector<Outcome> out;
                if (v1 < 0 || v2 < 0) {
                    out.push_back(Outcome {b, "false"});
                    return out;
                }
                const auto &e1 = b[size_t(v1)].eqs;
                bool linked = std::find(e1.begin(), e1.end(), v2) != e1.end();
                if (v1 == v2 || linked == add) {
                    out.push_back(Outcome {b, add ? "*" : "false"});
                    return out;
                }
                Snap s = b;
                auto &a1 = s[size_t(v1)].eqs, &a2 = s[size_t(v2)].eqs;
                if (add) {
                    a1.push_back(v2);
                    a2.push_back(v1);
                    std::sort(a1.begin(), a1.end());
                    std::sort(a2.begin(), a2.end());
                } else {
                    a1.erase(std::find(a1.begin(), a1.end(), v2));
                    a2.erase(std::find(a2.begin(), a2.end(), v1));
                }
                out.push_back(Outcome {s, "true"});
                return out;
            };
            int n = stepNo;
            p.call = [=]() {
                auto a = w.as<Variable>(v1), b = w.as<Variable>(v2);
                std::string cid = (a != nullptr && b != nullptr) ? sim::connectionIdBetween(a, b) : std::string();
                if (add && !four && a != nullptr && b != nullptr && a != b && !a->hasEquivalentVariable(b) && !b->hasEquivalentVariable(a)) {
                    // a new equivalence made without identifiers has none: no mapping id, and no connection id other than one
                    // that the connection between the two components carries already (whatever an earlier equivalence of
                    // the same two variables had went away with it)
                    std::set<std::string> carried {""};
                    auto ca = std::dynamic_pointer_cast<Component>(a->parent()), cb = std::dynamic_pointer_cast<Component>(b->parent());
                    if (ca != nullptr && cb != nullptr) {
                        for (size_t i = 0; i < ca->variableCount(); ++i) {
                            auto x = ca->variable(i);
                            for (size_t e = 0; e < x->equivalentVariableCount(); ++e) {
                                auto y = x->equivalentVariable(e);
                                if (y != nullptr && y->parent() == cb) {
                                    carried.insert(Variable::equivalenceConnectionId(x, y));
                                    carried.insert(Variable::equivalenceConnectionId(y, x));
                                }
                            }
                        }
                    }
                    bool r = Variable::addEquivalence(a, b);
                    if (r) {
                        std::string m1 = Variable::equivalenceMappingId(a, b), m2 = Variable::equivalenceMappingId(b, a);
                        std::string c1 = Variable::equivalenceConnectionId(a, b), c2 = Variable::equivalenceConnectionId(b, a);
                        if (!m1.empty() || !m2.empty() || carried.count(c1) == 0 || carried.count(c2) == 0) {
                            return "true, but the new equivalence has identifiers from nowhere: mapping '" + m1 + "'/'" + m2 + "' connection '" + c1 + "'/'" + c2 + "'";
                        }
                    }
                    return retOf(r);
                }
                return retOf(!add ? Variable::removeEquivalence(a, b) : four ? Variable::addEquivalence(a, b, "map_s" + str(n), cid.empty() ? "conn_s" + str(n) : cid) : Variable::addEquivalence(a, b));
            };
            return p;
        }
        if (op == "Variable.removeAllEquivalences") {
            int t = need(pick(1u << K_VAR, st.arg(0)));
            p.args = "t=" + hid(t);
            p.spec = [=](const Snap &b) {
                Snap s = b;
                for (int k : b[size_t(t)].eqs) {
                    if (k >= 0) {
                        auto &l = s[size_t(k)].eqs;
                        l.erase(std::remove(l.begin(), l.end(), t), l.end());
                    }
                }
                s[size_t(t)].eqs.clear();
                return std::vector<Outcome> {Outcome {s, ""}};
            };
            p.call = [=]() {
                w.as<Variable>(t)->removeAllEquivalences();
                return std::string();
            };
            return p;
        }
        if (op == "Variable.equivalentVariable#index") {
            int t = need(pick(1u << K_VAR, st.arg(0)));
            if (p.skip) {
                return p;
            }
            size_t cnt = w.as<Variable>(t)->equivalentVariableCount();
            size_t i = bad == B_IDX_COUNT ? cnt : bad == B_IDX_MAX ? size_t(-1) : cnt > 0 ? size_t(st.arg(2)) % cnt : 0;
            p.nature = N_QUERY;
            p.args = "t=" + hid(t) + " index=" + (i == size_t(-1) ? std::string("max") : str(i));
            p.spec = [=](const Snap &b) { return std::vector<Outcome> {Outcome {b, i < cnt ? "nonnull" : "null"}}; };
            p.call = [=]() { return std::string(w.as<Variable>(t)->equivalentVariable(i) == nullptr ? "null" : "nonnull"); };
            return p;
        }
        if (op == "Variable.hasEquivalentVariable") {
            int t = need(pick(1u << K_VAR, st.arg(0)));
            int x = entityArg(K_VAR, st.arg(1), bad, true);
            if (!argOk(x, slot)) {
                p.skip = true;
            }
            p.nature = N_QUERY;
            p.args = "t=" + hid(t) + " x=" + hid(x);
            p.spec = [=](const Snap &b) {
                const auto &l = b[size_t(t)].eqs;
                return std::vector<Outcome> {Outcome {b, retOf(x >= 0 && std::find(l.begin(), l.end(), x) != l.end())}};
            };
            p.call = [=]() { return retOf(w.as<Variable>(t)->hasEquivalentVariable(w.as<Variable>(x))); };
            return p;
        }
        if (op == "Variable.equivalenceIds") {
            int v1 = entityArg(K_VAR, st.arg(0), bad, slot == 0), v2 = entityArg(K_VAR, st.arg(1), bad, slot == 1);
            if (!argOk(v1, 0) || !argOk(v2, 1) || bad == B_GOOD) {
                p.skip = true;
                return p;
            }
            p.nature = N_QUERY;
            p.args = "v1=" + hid(v1) + " v2=" + hid(v2);
            p.spec = [=](const Snap &b) { return std::vector<Outcome> {Outcome {b, "empty"}}; };
            p.call = [=]() {
                auto a = w.as<Variable>(v1), b = w.as<Variable>(v2);
                Variable::setEquivalenceMappingId(a, b, "x");
                Variable::setEquivalenceConnectionId(a, b, "x");
                std::string r = Variable::equivalenceMappingId(a, b) + Variable::equivalenceConnectionId(a, b);
                Variable::removeEquivalenceMappingId(a, b);
                Variable::removeEquivalenceConnectionId(a, b);
                return std::string(r.empty() ? "empty" : "ids");
            };
            return p;
        }
        if (op == "Variable.editEquivalenceIds") {
            // identifiers of an existing equivalence are set or removed (mapping id of the pair, id of the whole connection)
            int v1 = need(pick(1u << K_VAR, st.arg(0)));
            if (p.skip) {
                return p;
            }
            auto a = w.as<Variable>(v1);
            if (a == nullptr || a->equivalentVariableCount() == 0) {
                p.skip = true;
                return p;
            }
            auto b = a->equivalentVariable(size_t(st.arg(1)) % a->equivalentVariableCount());
            int v2 = w.idOf(b);
            if (b == nullptr || v2 < 0) {
                p.skip = true;
                return p;
            }
            long mode = ((st.arg(2) % 4) + 4) % 4;
            p.args = "v1=" + hid(v1) + " v2=" + hid(v2) + " mode=" + str(mode);
            p.spec = [this](const Snap &before) {
                Snap s2 = before;
                for (size_t i = 0; i < s2.size() && i < w.h.size(); ++i) {
                    if (s2[i].alive && w.h[i].kind == K_VAR) {
                        s2[i].digest = "*"; // (the id of a connection is shared by all variable pairs of the two components)
                    }
                }
                return std::vector<Outcome> {Outcome {s2, ""}};
            };
            std::string id = "eqid" + str(val % 5);
            p.call = [=]() {
                auto x = w.as<Variable>(v1), y = w.as<Variable>(v2);
                switch (mode) {
                case 0: Variable::removeEquivalenceMappingId(x, y); break;
                case 1: Variable::removeEquivalenceConnectionId(x, y); break;
                case 2: Variable::setEquivalenceMappingId(x, y, id); break;
                default: Variable::setEquivalenceConnectionId(x, y, id);
                }
                // an equivalence is an unordered pair: what was set or removed reads back the same from either side
                const std::string expected = mode >= 2 ? id : std::string();
                const std::string xy = mode % 2 == 0 ? Variable::equivalenceMappingId(x, y) : Variable::equivalenceConnectionId(x, y);
                const std::string yx = mode % 2 == 0 ? Variable::equivalenceMappingId(y, x) : Variable::equivalenceConnectionId(y, x);
                if (xy != expected || yx != expected) {
                    return "getter-disagrees: (v1,v2) reads '" + xy + "', (v2,v1) reads '" + yx + "', expected '" + expected + "'";
                }
                return std::string();
            };
            return p;
        }
        if (op == "Entity.setId" || op == "Entity.equals") {
            int t = need(pick((1u << NKIND) - 1, st.arg(0)));
            if (p.skip) {
                return p;
            }
            if (op == "Entity.setId") {
                std::string id = val % 4 == 0 ? "" : "id" + str(val % 4);
                p.args = "t=" + hid(t) + " id=" + id;
                p.spec = edit(t);
                p.call = [=]() {
                    w.ent(t)->setId(id);
                    return std::string(w.ent(t)->id() == id ? "" : "getter-disagrees");
                };
                return p;
            }
            int x = entityArg(w.h[size_t(t)].kind, st.arg(1), bad, true);
            if (!argOk(x, slot)) {
                p.skip = true;
            }
            p.nature = N_QUERY;
            p.args = "t=" + hid(t) + " x=" + hid(x);
            p.spec = [=](const Snap &b) { return std::vector<Outcome> {Outcome {b, x < 0 ? "false" : x == t ? "true" : "*"}}; };
            p.call = [=]() { return retOf(w.ent(t)->equals(w.ent(x))); };
            return p;
        }
        if (op == "NamedEntity.setName") {
            int t = need(pick(1u << K_MODEL | 1u << K_COMP | 1u << K_VAR | 1u << K_UNITS, st.arg(0)));
            if (p.skip) {
                return p;
            }
            std::string name = sval;
            if (val % 4 == 3) { // the name of another entity of the same kind: by-name calls become ambiguous
                int o = pick(1u << w.h[size_t(t)].kind, st.arg(1));
                name = std::dynamic_pointer_cast<NamedEntity>(w.ent(o))->name();
            }
            p.args = "t=" + hid(t) + " name=" + name;
            p.spec = edit(t);
            p.call = [=]() {
                auto e = std::dynamic_pointer_cast<NamedEntity>(w.ent(t));
                e->setName(name);
                return std::string(e->name() == name ? "" : "getter-disagrees");
            };
            return p;
        }
        if (op == "ComponentEntity.setEncapsulationId") {
            int t = need(pick(1u << K_MODEL | 1u << K_COMP, st.arg(0)));
            p.args = "t=" + hid(t);
            p.spec = edit(t);
            p.call = [=]() {
                w.as<ComponentEntity>(t)->setEncapsulationId(sval);
                return std::string();
            };
            return p;
        }
        if (op == "Component.setMath") {
            int t = need(pick(1u << K_COMP, st.arg(0)));
            p.args = "t=" + hid(t);
            p.spec = edit(t);
            p.call = [=]() {
                w.as<Component>(t)->setMath(sval.empty() ? "" : "<math xmlns=\"http://www.w3.org/1998/Math/MathML\"><ci>" + sval + "</ci></math>");
                return std::string();
            };
            return p;
        }
        if (op.compare(0, 9, "Variable.") == 0) {
            int t = need(pick(1u << K_VAR, st.arg(0)));
            if (p.skip) {
                return p;
            }
            p.args = "t=" + hid(t);
            if (op == "Variable.setUnits#name" || op == "Variable.removeUnits") {
                bool rm = op == "Variable.removeUnits";
                std::string name = val % 3 == 0 ? "second" : val % 3 == 1 ? "volt" : "u0";
                p.spec = [=](const Snap &b) {
                    Snap s = b;
                    s[size_t(t)].unitsRef = rm ? NONE : FOREIGN;
                    s[size_t(t)].digest = "*";
                    return std::vector<Outcome> {Outcome {s, ""}};
                };
                p.call = [=]() {
                    if (rm) {
                        w.as<Variable>(t)->removeUnits();
                    } else {
                        w.as<Variable>(t)->setUnits(name);
                    }
                    return std::string();
                };
                return p;
            }
            if (op == "Variable.setUnits#units" || op == "Variable.setInitialValue#variable") {
                bool units = op == "Variable.setUnits#units";
                int x = entityArg(units ? K_UNITS : K_VAR, st.arg(1), bad, true);
                if (!argOk(x, slot)) {
                    p.skip = true;
                }
                p.args += " x=" + hid(x);
                p.spec = [=](const Snap &b) {
                    Snap s = b;
                    if (units) {
                        s[size_t(t)].unitsRef = x;
                        s[size_t(t)].digest = "*";
                    } else if (x >= 0) {
                        s[size_t(t)].digest = "*";
                    }
                    return std::vector<Outcome> {Outcome {s, ""}};
                };
                p.call = [=]() {
                    if (units) {
                        w.as<Variable>(t)->setUnits(w.as<Units>(x));
                    } else {
                        w.as<Variable>(t)->setInitialValue(w.as<Variable>(x));
                    }
                    return std::string();
                };
                return p;
            }
            bool iface = op == "Variable.setInterfaceType";
            p.spec = edit(t);
            p.call = [=]() {
                if (iface) {
                    w.as<Variable>(t)->setInterfaceType(val % 4 == 0 ? "" : val % 4 == 1 ? "public" : val % 4 == 2 ? "private" : "public_and_private");
                } else if (val % 2 == 0) {
                    w.as<Variable>(t)->setInitialValue(sval);
                } else {
                    w.as<Variable>(t)->setInitialValue(double(val));
                }
                return std::string();
            };
            return p;
        }
        if (op == "Units.compare#static") {
            int u1 = entityArg(K_UNITS, st.arg(0), bad, slot == 0), u2 = entityArg(K_UNITS, st.arg(1), bad, slot == 1);
            if (!argOk(u1, 0) || !argOk(u2, 1)) {
                p.skip = true;
                return p;
            }
            p.nature = N_QUERY;
            p.args = "u1=" + hid(u1) + " u2=" + hid(u2);
            p.spec = [=](const Snap &b) { return std::vector<Outcome> {Outcome {b, u1 < 0 || u2 < 0 ? "0|false|false" : "*"}}; };
            p.call = [=]() {
                auto a = w.as<Units>(u1), b = w.as<Units>(u2);
                double f = Units::scalingFactor(a, b);
                return std::string(f == 0.0 ? "0" : "nonzero") + "|" + retOf(Units::compatible(a, b)) + "|" + retOf(Units::equivalent(a, b));
            };
            return p;
        }
        if (op.compare(0, 6, "Units.") == 0) {
            int t = need(pick(1u << K_UNITS, st.arg(0)));
            if (p.skip) {
                return p;
            }
            auto u = w.as<Units>(t);
            size_t cnt = u->unitCount();
            size_t i = bad == B_IDX_COUNT ? cnt : bad == B_IDX_MAX ? size_t(-1) : cnt > 0 ? size_t(st.arg(2)) % cnt : 0;
            bool hit = i < cnt;
            p.args = "t=" + hid(t) + " index=" + (i == size_t(-1) ? std::string("max") : str(i));
            auto editIf = [=](bool changes, const std::string &yes, const std::string &no) {
                return [=](const Snap &b) {
                    Snap s = b;
                    if (changes) {
                        s[size_t(t)].digest = "*";
                    }
                    return std::vector<Outcome> {Outcome {s, changes ? yes : no}};
                };
            };
            if (op == "Units.addUnit") {
                std::string ref = val % 3 == 0 ? "metre" : val % 3 == 1 ? "second" : "";
                if (ref.empty()) {
                    int o = pick(1u << K_UNITS, st.arg(1));
                    ref = w.as<Units>(o)->name();
                }
                p.spec = edit(t);
                p.call = [=]() {
                    w.as<Units>(t)->addUnit(ref, std::string(val % 2 == 0 ? "" : "kilo"), 1.0, 1.0, std::string(val % 4 == 3 ? "unitid" : ""));
                    return std::string();
                };
            } else if (op == "Units.removeUnit#index") {
                p.spec = editIf(hit, "true", "false");
                p.call = [=]() { return retOf(w.as<Units>(t)->removeUnit(i)); };
            } else if (op == "Units.removeUnit#reference") {
                std::string ref = bad == B_NAME || !hit ? "no_such_units" : u->unitAttributeReference(i);
                bool found = bad != B_NAME && hit;
                p.args += " ref=" + ref;
                p.spec = editIf(found, "true", "false");
                p.call = [=]() { return retOf(w.as<Units>(t)->removeUnit(ref)); };
            } else if (op == "Units.removeAllUnits") {
                p.spec = edit(t);
                p.call = [=]() {
                    w.as<Units>(t)->removeAllUnits();
                    return std::string();
                };
            } else if (op == "Units.setUnitId") {
                p.spec = editIf(hit, "true", "false");
                p.call = [=]() { return retOf(w.as<Units>(t)->setUnitId(i, "unitid" + str(val % 3))); };
            } else { // Units.unitAttributes#index
                p.nature = N_QUERY;
                p.spec = [=](const Snap &b) { return std::vector<Outcome> {Outcome {b, hit ? "*" : "empty"}}; };
                p.call = [=]() {
                    std::string ref, prefix, id;
                    double e = 0, m = 0;
                    w.as<Units>(t)->unitAttributes(i, ref, prefix, e, m, id);
                    ref += w.as<Units>(t)->unitAttributeReference(i) + w.as<Units>(t)->unitAttributePrefix(i) + w.as<Units>(t)->unitId(i);
                    return std::string(ref.empty() && prefix.empty() && id.empty() ? "empty" : "values");
                };
            }
            return p;
        }
        if (op.compare(0, 6, "Reset.") == 0) {
            int t = need(pick(1u << K_RESET, st.arg(0)));
            if (p.skip) {
                return p;
            }
            p.args = "t=" + hid(t);
            if (op == "Reset.setVariable" || op == "Reset.setTestVariable") {
                bool test = op == "Reset.setTestVariable";
                int x = entityArg(K_VAR, st.arg(1), bad, true);
                if (!argOk(x, slot)) {
                    p.skip = true;
                }
                p.args += " x=" + hid(x);
                p.spec = [=](const Snap &b) {
                    Snap s = b;
                    (test ? s[size_t(t)].rtest : s[size_t(t)].rvar) = x;
                    return std::vector<Outcome> {Outcome {s, ""}};
                };
                p.call = [=]() {
                    if (test) {
                        w.as<Reset>(t)->setTestVariable(w.as<Variable>(x));
                    } else {
                        w.as<Reset>(t)->setVariable(w.as<Variable>(x));
                    }
                    return std::string();
                };
                return p;
            }
            p.spec = edit(t);
            p.call = [=]() {
                auto r = w.as<Reset>(t);
                if (op == "Reset.setOrder") {
                    r->setOrder(int(val % 3));
                } else if (op == "Reset.removeOrder") {
                    r->removeOrder();
                } else {
                    r->setTestValue(sval);
                    r->setResetValue(sval);
                    r->setTestValueId(sval);
                    r->setResetValueId(sval);
                }
                return std::string();
            };
            return p;
        }
        if (op.compare(0, 13, "ImportSource.") == 0) {
            int t = need(pick(1u << K_IMP, st.arg(0)));
            if (p.skip) {
                return p;
            }
            p.args = "t=" + hid(t);
            if (op == "ImportSource.setUrl") {
                p.spec = edit(t);
                p.call = [=]() {
                    w.as<ImportSource>(t)->setUrl("url" + sval + ".cellml");
                    return std::string();
                };
                return p;
            }
            bool rm = op == "ImportSource.removeModel";
            int x = rm ? NONE : entityArg(K_MODEL, st.arg(1), bad, true);
            if (!rm && !argOk(x, slot)) {
                p.skip = true;
            }
            p.args += " x=" + hid(x);
            p.spec = [=](const Snap &b) {
                Snap s = b;
                s[size_t(t)].impModel = x;
                return std::vector<Outcome> {Outcome {s, ""}};
            };
            p.call = [=]() {
                if (rm) {
                    w.as<ImportSource>(t)->removeModel();
                } else {
                    w.as<ImportSource>(t)->setModel(w.as<Model>(x));
                }
                return std::string();
            };
            return p;
        }
        if (op.compare(0, 15, "ImportedEntity.") == 0) {
            int t = need(pick(1u << K_COMP | 1u << K_UNITS, st.arg(0)));
            if (p.skip) {
                return p;
            }
            p.args = "t=" + hid(t);
            auto ie = [this, t]() -> ImportedEntity * {
                if (auto c = w.as<Component>(t)) {
                    return c.get();
                }
                return w.as<Units>(t).get();
            };
            if (op == "ImportedEntity.setImportReference") {
                p.spec = edit(t);
                p.call = [=]() {
                    auto keep = w.ent(t);
                    ie()->setImportReference(sval);
                    return std::string();
                };
                return p;
            }
            int x = entityArg(K_IMP, st.arg(1), bad, true);
            if (!argOk(x, slot)) {
                p.skip = true;
            }
            p.args += " x=" + hid(x);
            p.spec = [=](const Snap &b) {
                Snap s = b;
                s[size_t(t)].imp = x;
                s[size_t(t)].digest = "*";
                return std::vector<Outcome> {Outcome {s, ""}};
            };
            p.call = [=]() {
                auto keep = w.ent(t);
                ie()->setImportSource(w.as<ImportSource>(x));
                return std::string();
            };
            return p;
        }
        if (op == "Model.clean") {
            int t = need(pick(1u << K_MODEL, st.arg(0)));
            p.args = "t=" + hid(t);
            p.nature = N_UNLINK;
            p.spec = [=](const Snap &b) { return std::vector<Outcome> {Outcome {specClean(b, t), ""}}; };
            p.call = [=]() {
                w.as<Model>(t)->clean();
                return std::string();
            };
            return p;
        }
        p.skip = true;
        return p;
    }

    // ------------------------------------------------------------ verdicts

    bool avoided(const std::string &op, const std::string &tags) const
    {
        return plan.c("avoid_" + op, 0) != 0 || (!tags.empty() && plan.c("avoid_" + op + ":" + tags, 0) != 0);
    }

    bool sweep(const Snap &obs, const std::string &tags)
    {
        std::string detail;
        std::string cls = checkInvariants(w, obs, detail);
        if (!cls.empty()) {
            ctx.violate("C09", cls, tags, detail);
            return false;
        }
        return true;
    }

    // Is the observed snapshot one of the permitted ones?  Raises the violation otherwise.
    bool judge(const Snap &before, std::vector<Outcome> outs, const std::string &obsRet, const Prepared &p)
    {
        Snap obs = snapshot(w);
        ctx.state(fnv(snapText(obs)));
        ctx.ev("S" + str(stepNo) + " " + p.op + " " + p.args + " [" + p.tags + "] -> " + obsRet + " state=" + hex64(fnv(snapText(obs))).substr(8));
        if (!sweep(obs, p.tags)) {
            return false;
        }
        auto held = w.heldFlags();
        if (live.ev != nullptr || live.analyser != nullptr || live.am != nullptr || live.importer != nullptr || live.generator != nullptr || live.validator != nullptr || live.annotator != nullptr) {
            // Long-lived services keep strong references to what they were given (the importer's library its models, an
            // analyser model the analysed model, its variables and components, an external variable its variable, every
            // logger the items of its issues): with such a service around, an entity that is still alive is not required
            // to have been destroyed.
            bool any = false;
            for (size_t i = 0; i < held.size() && i < obs.size(); ++i) {
                if (obs[i].alive && !held[i]) {
                    held[i] = true;
                    any = true;
                }
            }
            if (any) {
                ctx.count("liveness_not_required_while_long_lived_services_hold_references");
            }
        }
        bool allRefusals = true;
        for (auto &o : outs) {
            allRefusals = allRefusals && diffSnap(w, before, o.s).empty() && o.s.size() == before.size();
            applyLiveness(o.s, held);
        }
        ctx.count("spec_comparisons");
        ctx.nontrivial = true;
        if (outs.size() > 1) {
            ctx.count("spec_disjunctive");
        }
        const Outcome *best = nullptr;
        size_t bestDiff = 0;
        bool stateMatched = false;
        for (auto &o : outs) {
            size_t d = diffSnap(w, o.s, obs).size();
            if (d == 0 && (o.ret == "*" || o.ret == obsRet)) {
                return true;
            }
            if (d == 0 && !stateMatched) {
                stateMatched = true;
                best = &o;
                bestDiff = 0;
            }
            // nearest permitted outcome; among equally near ones prefer the one whose return value was observed
            if (!stateMatched && (best == nullptr || d < bestDiff || (d == bestDiff && o.ret == obsRet && best->ret != obsRet))) {
                best = &o;
                bestDiff = d;
            }
        }
        std::string permitted;
        for (auto &o : outs) {
            permitted += (permitted.empty() ? "" : " | ") + o.ret;
        }
        if (stateMatched) {
            bool accepted = obsRet == "true" || obsRet.compare(0, 1, "h") == 0 || obsRet == "nonnull";
            ctx.violate("C09", allRefusals && accepted && p.bad != B_GOOD ? "bad-argument-accepted" : "wrong-return-value", p.tags,
                        p.op + " (" + p.args + ") returned " + obsRet + "; permitted: " + permitted + "; the state is as permitted");
            return false;
        }
        std::string desc;
        auto d = diffSnap(w, best->s, obs, &desc);
        std::string cls;
        for (int id : d) {
            bool expAlive = size_t(id) < best->s.size() && best->s[size_t(id)].alive;
            if (!expAlive && obs[size_t(id)].alive) {
                cls = "dropped-entity-still-alive";
                break;
            }
            if (expAlive && !obs[size_t(id)].alive) {
                cls = "entity-destroyed-unexpectedly";
            }
        }
        if (cls.empty()) {
            Snap b2 = before;
            applyLiveness(b2, held);
            if (allRefusals) {
                cls = p.bad != B_GOOD ? "bad-argument-changed-state" : p.nature == N_QUERY ? "query-changed-state" : "refused-call-changed-state";
            } else if (diffSnap(w, b2, obs).empty()) {
                cls = "no-effect";
            } else {
                auto want = listings(best->s), have = listings(obs);
                bool lostListing = false;
                for (auto &pr : want) {
                    lostListing = lostListing || have.count(pr) == 0;
                }
                auto allowed = diffSnap(w, b2, best->s);
                bool outside = false;
                for (int id : d) {
                    outside = outside || std::find(allowed.begin(), allowed.end(), id) == allowed.end();
                }
                bool parentOff = false; // an entity's parent link is not the one the nearest permitted outcome has
                for (int id : d) {
                    parentOff = parentOff || (obs[size_t(id)].alive && best->s[size_t(id)].parent != obs[size_t(id)].parent);
                }
                cls = p.nature == N_UNLINK && (lostListing || parentOff) ? "wrong-object-unlinked" : outside ? "frame-violated" : "wrong-effect";
            }
        }
        ctx.violate("C09", cls, p.tags, p.op + " (" + p.args + ") returned " + obsRet + " (permitted: " + permitted + "): " + desc);
        return false;
    }

    bool runPrepared(Prepared &p)
    {
        if (p.skip) {
            ctx.count("steps_skipped");
            return true;
        }
        if (avoided(p.op, p.tags)) {
            ctx.count("steps_avoided");
            return true;
        }
        Snap before = snapshot(w);
        auto outs = p.spec(before);
        ctx.count("call_" + p.op);
        if (p.bad != B_GOOD) {
            ctx.count(faultName(p.bad));
        }
        ctx.begin(stepNo, p.op, p.tags);
        std::string ret = p.call();
        return judge(before, std::move(outs), ret, p);
    }

    // ------------------------------------------------------------ DROP

    bool runDrop(const Step &st)
    {
        Kind k = Kind(size_t(st.arg(0)) % NKIND);
        auto l = w.held(1u << k);
        if (l.empty()) {
            ctx.count("steps_skipped");
            return true;
        }
        int id = l[size_t(st.arg(1)) % l.size()];
        Prepared p;
        p.op = "DROP";
        p.tags = KIND_NAME[k];
        p.nature = N_DROP;
        p.args = "h=" + hid(id);
        if (avoided(p.op, p.tags)) {
            return true;
        }
        Snap before = snapshot(w);
        ctx.count("drops");
        ctx.count("fault_dropped_reference");
        ctx.begin(stepNo, p.op, p.tags);
        w.h[size_t(id)].strong.reset();
        return judge(before, {Outcome {before, ""}}, "", p);
    }

    // ------------------------------------------------------------ CLONE (C11)

    static std::string stripLines(const std::string &dump, bool allEquivalences)
    {
        std::istringstream in(dump);
        std::string line, out;
        while (std::getline(in, line)) {
            size_t a = line.find_first_not_of(' ');
            bool eq = a != std::string::npos && line.compare(a, 5, "eq ->") == 0;
            if (eq && (allEquivalences || line.find("eq -> ext(") != std::string::npos)) {
                continue; // equivalences to variables outside the cloned object cannot be part of the copy
            }
            if (a != std::string::npos && line.compare(a, 6, "reset ") == 0) {
                // which variable a reset names is compared by name (resetRefs): that is what a serialisation holds
                for (const char *key : {" var=", " testvar="}) {
                    size_t q = line.find(key);
                    if (q != std::string::npos) {
                        size_t e = line.find(' ', q + 1);
                        line.erase(q, e == std::string::npos ? std::string::npos : e - q);
                    }
                }
            }
            for (const char *tok : {" unlinked", " linked"}) { // whether units are linked is not serialised content
                size_t q = line.find(tok);
                if (q != std::string::npos) {
                    line.erase(q, strlen(tok));
                }
            }
            out += line + "\n";
        }
        return out;
    }

    static std::string resetRefs(const EntityPtr &e, int depth = 0)
    {
        std::string out;
        auto name = [](const VariablePtr &v) { return v == nullptr ? std::string("<none>") : v->name(); };
        if (auto r = std::dynamic_pointer_cast<Reset>(e)) {
            out = "reset variable=" + name(r->variable()) + " test_variable=" + name(r->testVariable()) + "\n";
        } else if (auto ce = std::dynamic_pointer_cast<ComponentEntity>(e)) {
            if (auto c = std::dynamic_pointer_cast<Component>(e)) {
                for (size_t i = 0; i < c->resetCount(); ++i) {
                    out += resetRefs(c->reset(i));
                }
            }
            for (size_t i = 0; i < ce->componentCount() && depth < 32; ++i) {
                out += resetRefs(ce->component(i), depth + 1);
            }
        }
        return out;
    }

    static std::string firstDifference(const std::string &a, const std::string &b, std::string &feature)
    {
        std::istringstream ia(a), ib(b);
        std::string la, lb;
        while (true) {
            bool ga = bool(std::getline(ia, la)), gb = bool(std::getline(ib, lb));
            if (!ga && !gb) {
                return "";
            }
            if (!ga || !gb || la != lb) {
                const std::string &l = ga ? la : lb;
                std::istringstream ws(l);
                ws >> feature;
                if (ga && gb) { // name the first attribute that differs
                    std::istringstream wa(la), wb(lb);
                    std::string ta, tb;
                    while (wa >> ta && wb >> tb) {
                        if (ta != tb) {
                            feature += "." + ta.substr(0, ta.find('='));
                            break;
                        }
                    }
                } else {
                    feature += ga ? ".missing" : ".extra";
                }
                return "original: '" + (ga ? la : "<end>") + "' clone: '" + (gb ? lb : "<end>") + "'";
            }
        }
    }

    void registerTree(const EntityPtr &e, int group, bool hold, std::vector<int> &made, std::string &shared, int depth = 0)
    {
        if (e == nullptr || depth > 16) {
            return;
        }
        int known = w.idOf(e);
        if (known >= 0) {
            if (w.h[size_t(known)].group != group && shared.empty()) {
                shared = KIND_NAME[w.h[size_t(known)].kind];
            }
            return;
        }
        auto reg = [&](Kind k) {
            made.push_back(w.add(k, e, hold || depth == 0, group));
        };
        if (auto m = std::dynamic_pointer_cast<Model>(e)) {
            reg(K_MODEL);
            for (size_t i = 0; i < m->unitsCount(); ++i) {
                registerTree(m->units(i), group, hold, made, shared, depth + 1);
            }
            for (size_t i = 0; i < m->componentCount(); ++i) {
                registerTree(m->component(i), group, hold, made, shared, depth + 1);
            }
        } else if (auto c = std::dynamic_pointer_cast<Component>(e)) {
            reg(K_COMP);
            registerTree(c->importSource(), group, hold, made, shared, depth + 1);
            for (size_t i = 0; i < c->variableCount(); ++i) {
                registerTree(c->variable(i), group, hold, made, shared, depth + 1);
            }
            for (size_t i = 0; i < c->resetCount(); ++i) {
                registerTree(c->reset(i), group, hold, made, shared, depth + 1);
            }
            for (size_t i = 0; i < c->componentCount(); ++i) {
                registerTree(c->component(i), group, hold, made, shared, depth + 1);
            }
        } else if (auto v = std::dynamic_pointer_cast<Variable>(e)) {
            reg(K_VAR);
            registerTree(v->units(), group, hold, made, shared, depth + 1);
        } else if (auto u = std::dynamic_pointer_cast<Units>(e)) {
            reg(K_UNITS);
            registerTree(u->importSource(), group, hold, made, shared, depth + 1);
        } else if (auto r = std::dynamic_pointer_cast<Reset>(e)) {
            reg(K_RESET);
            registerTree(r->variable(), group, hold, made, shared, depth + 1);
            registerTree(r->testVariable(), group, hold, made, shared, depth + 1);
        } else if (std::dynamic_pointer_cast<ImportSource>(e) != nullptr) {
            reg(K_IMP);
        }
    }

    bool runClone(const Step &st)
    {
        static const Kind cloneable[] = {K_MODEL, K_COMP, K_VAR, K_UNITS, K_RESET};
        Kind k = cloneable[size_t(st.arg(0)) % 5];
        int o = pick(1u << k, st.arg(1));
        if (o < 0 || w.cloneCount >= plan.c("maxclones", 3) || w.h.size() > 90) {
            ctx.count("steps_skipped");
            return true;
        }
        std::string op = std::string(k == K_MODEL ? "Model" : k == K_COMP ? "Component" : k == K_VAR ? "Variable" : k == K_UNITS ? "Units" : "Reset") + ".clone";
        if (avoided(op, "")) {
            return true;
        }
        ++w.cloneCount;
        Snap before = snapshot(w);
        ctx.count("call_" + op);
        ctx.begin(stepNo, op, "");
        EntityPtr orig = w.ent(o), cl;
        std::string dOrig, dClone;
        switch (k) {
        case K_MODEL: {
            auto c = w.as<Model>(o)->clone();
            cl = c;
            dOrig = stripLines(dumpModel(w.as<Model>(o)), false);
            dClone = stripLines(dumpModel(c), false);
            break;
        }
        case K_COMP: {
            auto c = w.as<Component>(o)->clone();
            cl = c;
            dOrig = stripLines(dumpComponent(w.as<Component>(o)), true);
            dClone = stripLines(dumpComponent(c), false);
            break;
        }
        case K_VAR: {
            auto c = w.as<Variable>(o)->clone();
            cl = c;
            dOrig = stripLines(dumpVariable(w.as<Variable>(o)), true);
            dClone = stripLines(dumpVariable(c), false);
            break;
        }
        case K_UNITS: {
            auto c = w.as<Units>(o)->clone();
            cl = c;
            dOrig = dumpUnits(w.as<Units>(o));
            dClone = dumpUnits(c);
            break;
        }
        default: {
            auto c = w.as<Reset>(o)->clone();
            cl = c;
            dOrig = dumpReset(w.as<Reset>(o));
            dClone = dumpReset(c);
            break;
        }
        }
        dOrig += resetRefs(orig);
        dClone += resetRefs(cl);
        ctx.count("clones_checked");
        ctx.nontrivial = true;
        ctx.ev("S" + str(stepNo) + " " + op + " of " + hid(o) + " dump=" + hex64(fnv(dClone)).substr(8));
        std::string kind = KIND_NAME[k];
        bool known = false; // a listed known finding was hit and the run goes on
        if (cl == nullptr) {
            ctx.violate("C11", "clone-null", kind, op + " returned null");
            return false;
        }
        if (dOrig != dClone) {
            // A connection (a pair of components) has one id in any document.  After a variable has been moved between
            // components, the pairs of one connection may carry different ids: no serialisation can say that, what the
            // library reports for it depends on the direction asked, and a copy settles on one of them.  Such a model is
            // compared with the connection ids left out.
            if (auto mo = std::dynamic_pointer_cast<Model>(orig)) {
                std::map<std::pair<const void *, const void *>, std::set<std::string>> idsOf;
                std::vector<ComponentPtr> cs;
                sim::allComponents(mo, cs);
                for (auto &c : cs) {
                    for (size_t i = 0; i < c->variableCount(); ++i) {
                        auto a = c->variable(i);
                        for (size_t e = 0; e < a->equivalentVariableCount(); ++e) {
                            auto b = a->equivalentVariable(e);
                            const void *pa = a->parent().get(), *pb = b != nullptr ? b->parent().get() : nullptr;
                            auto key = std::make_pair(std::min(pa, pb), std::max(pa, pb));
                            for (const std::string &id : {Variable::equivalenceConnectionId(a, b), Variable::equivalenceConnectionId(b, a)}) {
                                if (!id.empty()) {
                                    idsOf[key].insert(id);
                                }
                            }
                        }
                    }
                }
                bool conflict = false;
                for (auto &kv : idsOf) {
                    conflict = conflict || kv.second.size() > 1;
                }
                if (conflict) {
                    auto mask = [](std::string d) {
                        size_t p = 0;
                        while ((p = d.find(" cid=", p)) != std::string::npos) {
                            size_t e = d.find_first_of(" '\n", p + 5);
                            d.replace(p + 5, (e == std::string::npos ? d.size() : e) - (p + 5), "?");
                            p += 5;
                        }
                        return d;
                    };
                    dOrig = mask(dOrig);
                    dClone = mask(dClone);
                    ctx.count("clone_of_model_with_conflicting_connection_ids_compared_without_them");
                }
            }
        }
        if (dOrig != dClone) {
            std::string feature;
            std::string diff = firstDifference(dOrig, dClone, feature);
            ctx.violate("C11", "clone-differs", kind + "," + feature, op + " of " + hid(o) + ": the copy's content differs from the original's: " + diff, true);
            known = true;
        }
        if (!known && (!cl->equals(orig) || !orig->equals(cl))) {
            ctx.violate("C11", "clone-not-equal", kind, op + " of " + hid(o) + ": clone->equals(original) = " + str(cl->equals(orig)) + ", original->equals(clone) = " + str(orig->equals(cl)));
            return false;
        }
        auto pe = std::dynamic_pointer_cast<ParentedEntity>(cl);
        if (pe != nullptr && pe->parent() != nullptr) {
            ctx.violate("C11", "clone-has-parent", kind, op + " of " + hid(o) + ": the clone has a parent");
            return false;
        }
        std::vector<int> made;
        std::string shared;
        int group = int(w.cloneCount);
        registerTree(cl, group, (st.arg(2) & 1) != 0, made, shared);
        orig.reset();
        cl.reset();
        pe.reset();
        if (!shared.empty()) {
            ctx.violate("C11", "clone-shares-object", kind + "," + shared, op + " of " + hid(o) + ": an object (" + shared + ") reachable from the clone is the very object the original side uses", true);
        }
        Snap after = snapshot(w);
        Prepared p;
        p.op = op;
        p.tags = kind;
        if (!sweep(after, kind)) {
            return false;
        }
        std::set<int> own(made.begin(), made.end());
        for (int id : made) {
            for (int q : after[size_t(id)].eqs) {
                if (own.count(q) == 0) {
                    ctx.violate("C11", "clone-equivalence-crosses", kind, op + " of " + hid(o) + ": " + label(w, after, id) + " of the clone is equivalent to " + label(w, after, q) + ", which is not part of the clone");
                    return false;
                }
            }
        }
        Snap old(after.begin(), after.begin() + long(before.size()));
        std::string desc;
        if (!diffSnap(w, before, old, &desc).empty()) {
            ctx.violate("C11", "clone-modified-original", kind, op + " of " + hid(o) + " changed existing objects: " + desc);
            return false;
        }
        ctx.state(fnv(snapText(after)));
        return true;
    }

    // ------------------------------------------------------------ services

    bool runService(const Step &st, const Entry &en)
    {
        const SvcEntry &se = tables().svc[en.svc];
        long flags = st.arg(4);
        int slot = (flags & 4) != 0 ? 1 : 0;
        int bad = int(st.arg(3));
        bool dropped = en.name.find("@model-dropped") != std::string::npos;
        if (bad <= B_GOOD || bad >= NBAD || ((se.mask[slot] >> bad) & 1u) == 0) {
            if (plan.c("table", 0) != 0) {
                ctx.count("table_pair_not_applicable");
                return true;
            }
            // take the first kind that fits
            bad = B_GOOD;
            for (int s2 = 0; s2 < 2 && bad == B_GOOD; ++s2) {
                int sl = (slot + s2) % 2;
                for (int b = 1; b < NBAD; ++b) {
                    if (((se.mask[sl] >> ((b + int(st.arg(5))) % (NBAD - 1) + 1)) & 1u) != 0) {
                        bad = (b + int(st.arg(5))) % (NBAD - 1) + 1;
                        slot = sl;
                        break;
                    }
                }
            }
            if (bad == B_GOOD) {
                return true;
            }
        }
        Prepared p;
        p.op = en.name;
        p.bad = bad;
        p.nature = N_QUERY;
        p.tags = dropped ? "annotator-model-dropped" : se.recvKind >= 0 ? std::string("any-history") : joinTags({BAD_TAG[bad], slot == 1 ? "arg2" : ""});
        if (avoided(p.op, p.tags)) {
            ctx.count("steps_avoided");
            return true;
        }
        int recvId = NONE;
        if (se.recvKind >= 0) {
            recvId = pick(1u << se.recvKind, st.arg(0));
            if (recvId < 0) {
                ctx.count("steps_skipped");
                return true;
            }
            p.args = "h=" + hid(recvId);
        }
        Snap before = snapshot(w);
        ctx.count("call_" + p.op);
        ctx.count(dropped ? "fault_annotator_model_dropped" : se.recvKind >= 0 ? "fault_arbitrary_history_receiver" : faultName(bad));
        ctx.begin(stepNo, p.op, p.tags);
        std::string failure, kitBefore, kitAfter;
        {
            Svc s(ctx);
            s.bad = bad;
            s.slot = slot;
            s.variant = st.arg(5);
            s.dropped = dropped;
            s.recv = w.ent(recvId);
            s.live = &live;
            buildKit(s);
            kitBefore = kitDump(s);
            se.run(s);
            kitAfter = kitDump(s);
            failure = s.failure;
        }
        Snap expect = before;
        if (se.allow != 0) {
            // linkUnits() may re-point variables at the model's units: the links are taken as observed, so that
            // the liveness closure of the expectation is computed over the references that really exist
            Snap observed = snapshot(w);
            for (size_t i = 0; i < expect.size(); ++i) {
                if (expect[i].alive && w.h[i].kind == K_VAR) {
                    expect[i].digest = "*";
                    if (se.allow == 1 && i < observed.size() && observed[i].alive) {
                        expect[i].unitsRef = observed[i].unitsRef;
                    }
                }
            }
        }
        if (!judge(before, {Outcome {expect, ""}}, "", p)) {
            return false;
        }
        if (kitBefore != kitAfter) {
            std::string feature;
            ctx.violate("C09", "bad-argument-changed-state", p.tags, p.op + " changed one of its arguments or the model it works on: " + firstDifference(kitBefore, kitAfter, feature));
            return false;
        }
        if (!failure.empty()) {
            ctx.violate("C09", se.recvKind >= 0 ? "service-answer-wrong-after-history" : "bad-argument-accepted", p.tags, p.op + ": " + failure);
            return false;
        }
        return true;
    }

    // ------------------------------------------------------------ main loop

    void run()
    {
        buildUniverse();
        Snap s0 = snapshot(w);
        ctx.ev("universe " + hex64(fnv(snapText(s0))));
        ctx.state(fnv(snapText(s0)));
        if (!sweep(s0, "universe")) {
            return;
        }
        for (auto &st : plan.steps) {
            ++stepNo;
            bool ok = true;
            if (st.op == "DROP") {
                ok = runDrop(st);
            } else if (st.op == "CLONE") {
                ok = runClone(st);
            } else if (st.op == "NOP") {
                ctx.count("table_pair_not_applicable");
            } else {
                auto it = tables().byName.find(st.op);
                if (it == tables().byName.end()) {
                    continue;
                }
                const Entry &en = tables().entries[it->second];
                if (en.cat == C_SVC) {
                    ok = runService(st, en);
                } else {
                    Prepared p = en.cat == C_CONT ? prepContainer(st, en) : prepObject(st, en);
                    ok = runPrepared(p);
                }
            }
            if (!ok) {
                return;
            }
        }
    }
};

// ---------------------------------------------------------------- plan generation

Step mk(const std::string &op, std::vector<long> a)
{
    Step s;
    s.task = 0;
    s.op = op;
    s.a = std::move(a);
    return s;
}

Plan generate(Rng &rng, const Opts &opts, uint64_t runIndex)
{
    const Tables &t = tables();
    Plan p;
    p.engine = "history";
    for (auto &kv : opts.force) {
        if (kv.first.compare(0, 6, "avoid_") == 0 || kv.first == "maxclones" || kv.first == "wildeq") {
            p.cfg[kv.first] = kv.second;
        }
    }
    if (opts.f("table", 0) != 0) {
        // deterministic walk: run i exercises (entry point, slot) i / 7 with badness kind i % 7
        size_t total = t.walk.size() * (NBAD - 1);
        size_t i = size_t(runIndex % total), round = size_t(runIndex / total);
        auto es = t.walk[i / (NBAD - 1)];
        int bad = 1 + int(i % (NBAD - 1));
        p.cfg["table"] = 1;
        p.cfg["useed"] = long(round + 1);
        p.cfg["nm"] = 2;
        p.cfg["nc"] = 4;
        p.cfg["nv"] = 4;
        p.cfg["nu"] = 2;
        p.cfg["nr"] = 2;
        p.cfg["ni"] = 1;
        p.cfg["lookalikes"] = opts.f("lookalikes", long(round % 2));
        const Entry &e = t.entries[es.first];
        if (((e.mask[es.second] >> bad) & 1u) == 0) {
            p.steps.push_back(mk("NOP", {}));
        } else {
            p.steps.push_back(mk(e.name, {0, long(round), long(round), bad, (es.second == 1 ? 4 : 0) | 2 | (round % 2 != 0 ? 8 : 0), long(round)}));
        }
        return p;
    }
    p.cfg["useed"] = long(rng.below(1u << 30));
    p.cfg["nm"] = opts.f("nm", rng.range(1, 2));
    p.cfg["nc"] = opts.f("nc", rng.range(2, 5));
    p.cfg["nv"] = opts.f("nv", rng.range(2, 5));
    p.cfg["nu"] = opts.f("nu", rng.range(1, 3));
    p.cfg["nr"] = opts.f("nr", rng.range(1, 3));
    p.cfg["ni"] = opts.f("ni", rng.range(0, 2));
    p.cfg["lookalikes"] = opts.f("lookalikes", rng.chance(1, 2) ? 1 : 0);
    bool badargs = opts.f("badargs", rng.chance(3, 4) ? 1 : 0) != 0;
    bool clones = opts.f("clones", rng.chance(2, 3) ? 1 : 0) != 0;
    bool services = opts.f("services", rng.chance(1, 2) ? 1 : 0) != 0;
    bool drops = opts.f("drops", rng.chance(2, 3) ? 1 : 0) != 0;
    bool objects = rng.chance(3, 4);
    // equivalence stress: many equivalences, variables that die (they are in no component), equivalence edits in between
    bool eqstress = opts.f("eqstress", rng.chance(1, 6) ? 1 : 0) != 0;
    if (eqstress) {
        p.cfg["eqstress"] = 1;
        p.cfg["nv"] = opts.f("nv", rng.range(5, 8));
        p.cfg["nr"] = 0;
    }
    unsigned badKinds = 0; // which kinds of bad value this run injects
    for (int b = 1; b < NBAD; ++b) {
        if (rng.chance(2, 3)) {
            badKinds |= 1u << b;
        }
    }
    if (opts.f("nulls", 1) == 0) {
        badKinds &= ~mN;
    }
    unsigned fams = unsigned(rng.below(15)) + 1; // families of containers in play
    bool liveServices = opts.f("live", rng.chance(1, 3) ? 1 : 0) != 0; // long-lived services fed with handles of the universe
    std::vector<size_t> cont, obj, svc, liveSvc;
    for (size_t i = 0; i < t.entries.size(); ++i) {
        const Entry &e = t.entries[i];
        if (e.cat == C_CONT && ((fams >> e.fam) & 1u) != 0) {
            cont.push_back(i);
        } else if (e.cat == C_OBJ) {
            obj.push_back(i);
        } else if (e.cat == C_SVC && e.name.compare(0, 5, "Live.") == 0) {
            liveSvc.push_back(i);
        } else if (e.cat == C_SVC) {
            svc.push_back(i);
        }
    }
    long n = rng.range(10, 60);
    if (p.c("lookalikes", 0) != 0 && opts.f("family", rng.chance(1, 4) ? 1 : 0) != 0) {
        // a family of look-alikes in different branches, and a first call that searches the whole first model for one of them
        p.cfg["family"] = opts.f("familykind", long(1 + rng.below(2)));
        static const char *const searching[] = {"ComponentEntity.removeComponent#ptr", "ComponentEntity.replaceComponent#ptr", "ComponentEntity.containsComponent#ptr",
                                                "ComponentEntity.removeComponent#name", "ComponentEntity.takeComponent#name", "ComponentEntity.replaceComponent#name",
                                                "ComponentEntity.removeComponent#ptr", "ComponentEntity.replaceComponent#ptr"};
        p.steps.push_back(mk(searching[rng.below(8)], {0, long(rng.below(8)), 0, B_GOOD, 16 | 1, p.c("family", 1) == 2 ? long(3 * rng.below(3)) : long(1 + 3 * rng.below(2))}));
    }
    for (long i = 0; i < n; ++i) {
        unsigned r = unsigned(rng.below(100));
        if (eqstress && rng.chance(2, 3)) {
            unsigned k = unsigned(rng.below(12));
            if (k >= 10) {
                // an equivalence made without identifiers is given one kind of identifier only, removed and made again: the
                // second one starts without identifiers like the first
                long a = long(rng.below(8)), b = long(rng.below(8));
                p.steps.push_back(mk("Variable.addEquivalence#2", {a, b, 0, B_GOOD, 0, 0}));
                long edits = rng.range(1, 3);
                for (long e = 0; e < edits; ++e) {
                    p.steps.push_back(mk("Variable.editEquivalenceIds", {rng.chance(1, 2) ? a : b, long(rng.below(4)), rng.chance(3, 4) ? 3 : 2, B_GOOD, 0, long(rng.below(5))}));
                }
                if (rng.chance(1, 3)) {
                    p.steps.push_back(mk("Variable.removeAllEquivalences", {rng.chance(1, 2) ? a : b, 0, 0, B_GOOD, 0, 0}));
                } else {
                    p.steps.push_back(mk("Variable.removeEquivalence", {a, b, 0, B_GOOD, 0, 0}));
                }
                p.steps.push_back(mk("Variable.addEquivalence#2", {a, b, 0, B_GOOD, 0, 0}));
            } else if (k < 3) {
                p.steps.push_back(mk("DROP", {long(K_VAR), long(rng.below(8))}));
            } else if (k < 6) {
                p.steps.push_back(mk("Variable.removeEquivalence", {long(rng.below(8)), long(rng.below(8)), 0, B_GOOD, 0, 0}));
            } else if (k < 9) {
                p.steps.push_back(mk(rng.chance(1, 2) ? "Variable.addEquivalence#2" : "Variable.addEquivalence#4", {long(rng.below(8)), long(rng.below(8)), 0, B_GOOD, 0, 0}));
            } else {
                p.steps.push_back(mk("Variable.removeAllEquivalences", {long(rng.below(8)), 0, 0, B_GOOD, 0, 0}));
            }
            continue;
        }
        if (drops && r < 8) {
            p.steps.push_back(mk("DROP", {long(rng.below(NKIND)), long(rng.below(8))}));
            continue;
        }
        if (clones && r < 14) {
            p.steps.push_back(mk("CLONE", {long(rng.below(5)), long(rng.below(8)), long(rng.below(2))}));
            continue;
        }
        const std::vector<size_t> *pool = &cont;
        if (liveServices && !liveSvc.empty() && r >= 70) {
            const Entry &le = t.entries[rng.pick(liveSvc)];
            p.steps.push_back(mk(le.name, {long(rng.below(8)), 0, 0, B_NULL, 0, long(rng.below(8))}));
            continue;
        }
        if (services && badargs && r < 24) {
            pool = &svc;
        } else if (objects && r < 50) {
            pool = &obj;
        }
        const Entry &e = t.entries[rng.pick(*pool)];
        long flags = long(rng.below(16));
        if (!rng.chance(1, 3)) {
            flags |= 2; // mostly aim at the target's own children
        }
        if (p.c("lookalikes", 0) != 0 && e.cat == C_CONT && rng.chance(1, 3)) {
            flags |= 16 | 1; // aim at an entity with a look-alike in the (searched) scope
        }
        int slot = (flags & 4) != 0 ? 1 : 0;
        long bad = B_GOOD;
        unsigned usable = e.mask[slot] & badKinds;
        if (e.cat == C_SVC) {
            usable = e.mask[slot] != 0 ? e.mask[slot] : e.mask[0];
        }
        if (badargs && usable != 0 && (e.cat == C_SVC || rng.chance(1, 3))) {
            std::vector<long> ks;
            for (int b = 1; b < NBAD; ++b) {
                if (((usable >> b) & 1u) != 0) {
                    ks.push_back(b);
                }
            }
            bad = rng.pick(ks);
        }
        p.steps.push_back(mk(e.name, {long(rng.below(8)), long(rng.below(8)), long(rng.below(6)), bad, flags, long(rng.below(8))}));
    }
    return p;
}

void execute(const Plan &plan, Ctx &ctx)
{
    Exec e(plan, ctx);
    e.run();
}

std::vector<Plan> simplify(const Plan &p)
{
    std::vector<Plan> out;
    if (p.c("lookalikes", 0) != 0) {
        Plan q = p;
        q.cfg["lookalikes"] = 0;
        out.push_back(q);
    }
    static const char *const sizes[] = {"nr", "ni", "nu", "nv", "nc", "nm"};
    static const long least[] = {0, 0, 0, 0, 1, 1};
    for (size_t i = 0; i < 6; ++i) {
        if (p.c(sizes[i], 0) > least[i]) {
            Plan q = p;
            q.cfg[sizes[i]] = p.c(sizes[i], 0) - 1;
            out.push_back(q);
        }
    }
    return out;
}

} // namespace

void registerHistoryEngine()
{
    Engine e;
    e.name = "history";
    e.flavour = "asan";
    e.generate = generate;
    e.execute = execute;
    e.simplify = simplify;
    e.sweepSize = [](const Opts &) { return uint64_t(tables().walk.size() * (NBAD - 1)); };
    e.timeoutS = 30;
    e.crashProperty = "C09";
    registerEngine(e);
}
