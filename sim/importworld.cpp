#include "importworld.h"

#include <algorithm>
#include <ios>

namespace iw {

using sim::Rng;
using sim::str;

static const char *STANDARD[] = {"second", "metre", "kilogram", "ampere", "kelvin", "mole", "dimensionless", "volt", "litre"};

bool isStandardUnit(const std::string &n)
{
    static const std::set<std::string> all = {"ampere", "becquerel", "candela", "coulomb", "dimensionless", "farad", "gram", "gray", "henry", "hertz", "joule", "katal", "kelvin", "kilogram", "litre", "lumen", "lux", "metre", "mole", "newton", "ohm", "pascal", "radian", "second", "siemens", "sievert", "steradian", "tesla", "volt", "watt", "weber"};
    return all.count(n) != 0;
}

std::string normalisePath(const std::string &p)
{
    std::vector<std::string> parts;
    std::string cur;
    bool absolute = !p.empty() && p[0] == '/';
    auto flush = [&]() {
        if (cur == "..") {
            if (!parts.empty()) {
                parts.pop_back();
            }
        } else if (!cur.empty() && cur != ".") {
            parts.push_back(cur);
        }
        cur.clear();
    };
    for (char c : p) {
        if (c == '/' || c == '\\') {
            flush();
        } else {
            cur += c;
        }
    }
    flush();
    std::string out = absolute ? "/" : "";
    for (size_t i = 0; i < parts.size(); ++i) {
        out += (i ? "/" : "") + parts[i];
    }
    return out;
}

std::string hrefBetween(const std::string &fromDir, const std::string &toPath)
{
    // directories are "/w/", "/w/a/", "/w/b/"
    if (toPath.compare(0, fromDir.size(), fromDir) == 0) {
        return toPath.substr(fromDir.size());
    }
    // fromDir is a subdirectory of /w/
    return "../" + toPath.substr(3);
}

std::string libraryResolvePath(const std::string &filename, const std::string &base)
{
    std::string path = base.substr(0, base.find_last_of('/') + 1) + filename;
    std::vector<std::string> segments;
    size_t start = 0;
    while (start <= path.size()) {
        size_t end = path.find('/', start);
        if (end == std::string::npos) {
            end = path.size();
        }
        std::string segment = path.substr(start, end - start);
        if (segment == ".." && !segments.empty() && segments.back() == ".") {
            segments.back() = "..";
        } else if (segment == ".." && !segments.empty() && !segments.back().empty() && segments.back() != "..") {
            segments.pop_back();
        } else if (segment != "." || start == 0) {
            segments.push_back(segment);
        }
        start = end + 1;
    }
    std::string out;
    for (size_t i = 0; i < segments.size(); ++i) {
        out += (i == 0 ? "" : "/") + segments[i];
    }
    return out;
}

std::string libraryNormaliseBase(const std::string &basePath)
{
    std::string b = basePath;
    if (!b.empty() && b.back() != '/') {
        b += "/";
    }
    return b;
}

std::string relativeDir(const std::string &fromDir, const std::string &toDir)
{
    // both are absolute directories ending in '/'
    auto split = [](const std::string &d) {
        std::vector<std::string> parts;
        std::string cur;
        for (char c : d) {
            if (c == '/') {
                if (!cur.empty()) {
                    parts.push_back(cur);
                }
                cur.clear();
            } else {
                cur += c;
            }
        }
        return parts;
    };
    auto a = split(fromDir), b = split(toDir);
    size_t common = 0;
    while (common < a.size() && common < b.size() && a[common] == b[common]) {
        ++common;
    }
    std::string out;
    for (size_t i = common; i < a.size(); ++i) {
        out += "../";
    }
    for (size_t i = common; i < b.size(); ++i) {
        out += b[i] + "/";
    }
    return out;
}

Graph generateGraph(Rng &rng, const GraphParams &gp)
{
    Graph g;
    const bool heavy = gp.unitsHeavy;
    long nFiles = heavy ? rng.range(std::max<long>(3, gp.maxFiles - 1), gp.maxFiles + 1) : rng.range(2, std::max<long>(2, gp.maxFiles));
    static const char *dirs[] = {"/w/", "/w/a/", "/w/b/"};
    long nDirs = rng.range(1, 3);
    for (long i = 0; i < nFiles; ++i) {
        FileSpec f;
        f.dir = i == 0 ? (rng.chance(2, 3) ? "/w/" : dirs[rng.below(uint64_t(nDirs))]) : dirs[rng.below(uint64_t(nDirs))];
        f.path = f.dir + (i == 0 ? "root" : "f" + str(i)) + ".cellml";
        f.modelName = "m" + str(i);
        f.groupImports = rng.chance(1, 2);
        g.files.push_back(f);
    }
    // build from the leaves so that every reference has a target; file i imports only from files j > i
    for (long i = nFiles - 1; i >= 0; --i) {
        FileSpec &f = g.files[size_t(i)];
        bool canImport = i + 1 < nFiles;
        // imported units
        long nIU = canImport ? (heavy ? rng.range(1, 3) : rng.range(0, 2)) : 0;
        if (i == 0 && canImport && nIU == 0 && rng.chance(1, 2)) {
            nIU = 1;
        }
        for (long k = 0; k < nIU; ++k) {
            long j = rng.range(i + 1, nFiles - 1);
            const FileSpec &t = g.files[size_t(j)];
            if (t.units.empty()) {
                continue;
            }
            UnitsSpec u;
            u.name = "iu" + str(i) + "_" + str(k);
            u.imported = true;
            u.targetFile = int(j);
            u.href = hrefBetween(f.dir, t.path);
            u.ref = t.units[rng.below(t.units.size())].name;
            if (heavy && rng.chance(2, 3)) {
                // carry on along a chain: refer to units the target itself imports
                std::vector<std::string> imp;
                for (auto &e : t.units) {
                    if (e.imported) {
                        imp.push_back(e.name);
                    }
                }
                if (!imp.empty()) {
                    u.ref = imp[rng.below(imp.size())];
                }
            }
            f.units.push_back(u);
        }
        // local units (children refer to standard units or to units already defined in this file)
        long nLU = heavy ? rng.range(1, 2) : rng.range(1, 3);
        for (long k = 0; k < nLU; ++k) {
            UnitsSpec u;
            u.name = "u" + str(i) + "_" + str(k);
            long nc = heavy ? rng.range(2, 3) : rng.range(1, 3);
            for (long c = 0; c < nc; ++c) {
                if (!f.units.empty() && (heavy ? rng.chance(3, 4) : rng.chance(1, 2))) {
                    // candidates: earlier units of this file
                    std::vector<std::string> cands;
                    for (auto &e : f.units) {
                        if (gp.avoidIndirectUnits && i != 0 && (e.imported || !e.children.empty())) {
                            // in non-root files keep local units free of imported (direct or indirect) children
                            bool leafOnly = !e.imported;
                            for (auto &ch : e.children) {
                                leafOnly = leafOnly && isStandardUnit(ch);
                            }
                            if (!leafOnly) {
                                continue;
                            }
                        }
                        cands.push_back(e.name);
                    }
                    if (!cands.empty()) {
                        u.children.push_back(cands[rng.below(cands.size())]);
                        continue;
                    }
                }
                u.children.push_back(STANDARD[rng.below(sizeof STANDARD / sizeof *STANDARD)]);
            }
            f.units.push_back(u);
        }
        // components
        long nIC = canImport ? (heavy ? rng.range(0, 1) : gp.encapsulationHeavy ? rng.range(1, 3) : rng.range(0, 2)) : 0;
        long nLC = heavy ? 1 : rng.range(1, 3);
        if (i == 0 && canImport && nIC == 0 && nIU == 0) {
            nIC = 1;
        }
        auto pickUnits = [&](bool encapsulatedChild) -> std::string {
            if (rng.chance(1, 3)) {
                return STANDARD[rng.below(sizeof STANDARD / sizeof *STANDARD)];
            }
            std::vector<std::string> cands;
            for (auto &e : f.units) {
                if (gp.avoidIndirectUnits && i != 0) {
                    // non-root files: a component may use an imported units directly only when it is itself
                    // the directly imported (top-level, non-encapsulated) component; local units must be import-free
                    bool importFree = !e.imported;
                    for (auto &ch : e.children) {
                        importFree = importFree && isStandardUnit(ch);
                    }
                    if (!(importFree || (e.imported && !encapsulatedChild))) {
                        continue;
                    }
                }
                cands.push_back(e.name);
            }
            if (cands.empty()) {
                return "second";
            }
            return cands[rng.below(cands.size())];
        };
        for (long k = 0; k < nLC + nIC; ++k) {
            CompSpec c;
            bool imp = k >= nLC;
            if (!f.comps.empty() && rng.chance(2, 5)) {
                c.parent = int(rng.below(f.comps.size()));
            }
            if (gp.encapsulationHeavy && imp && rng.chance(3, 4)) {
                // below an imported component of this file, when there is one already
                std::vector<int> importedSoFar;
                for (size_t q = 0; q < f.comps.size(); ++q) {
                    if (f.comps[q].imported) {
                        importedSoFar.push_back(int(q));
                    }
                }
                if (!importedSoFar.empty()) {
                    c.parent = importedSoFar[rng.below(importedSoFar.size())];
                }
            }
            if (imp) {
                long j = rng.range(i + 1, nFiles - 1);
                const FileSpec &t = g.files[size_t(j)];
                c.name = "ic" + str(i) + "_" + str(k);
                c.imported = true;
                c.targetFile = int(j);
                c.href = hrefBetween(f.dir, t.path);
                c.ref = t.comps[rng.below(t.comps.size())].name;
            } else {
                c.name = "c" + str(i) + "_" + str(k);
                long nv = rng.range(1, 2);
                for (long v = 0; v < nv; ++v) {
                    c.vars.push_back({"v" + str(v), pickUnits(c.parent >= 0)});
                }
                if (rng.chance(1, 2)) {
                    c.cn.push_back(pickUnits(c.parent >= 0));
                }
            }
            f.comps.push_back(c);
        }
    }
    return g;
}

long enumeratedGraphCount()
{
    return 3 * 4 * 3 * 4;
}

Graph enumeratedGraph(long index)
{
    long layout = index % 3;
    long rootImports = (index / 3) % 4; // 0 units, 1 component, 2 both in one import element, 3 both in separate elements
    long depth = (index / 12) % 3; // 0 imported entity is a local leaf, 1 it is itself imported from f2, 2 it is local but needs an entity imported from f2
    long encaps = (index / 36) % 4; // 0 none, 1 root's import component has a local child in root, 2 f1's component has a local child, 3 f1's component has an imported child (from f2)
    Graph g;
    auto file = [&](const std::string &dir, const std::string &name, const std::string &model) {
        FileSpec f;
        f.dir = dir;
        f.path = dir + name + ".cellml";
        f.modelName = model;
        return f;
    };
    std::string d1 = layout == 0 ? "/w/" : "/w/a/";
    std::string d2 = layout == 2 ? "/w/b/" : d1;
    FileSpec root = file("/w/", "root", "m0"), f1 = file(d1, "f1", "m1"), f2 = file(d2, "f2", "m2");
    bool needF2 = depth != 0 || encaps == 3;
    // f2: a leaf library
    f2.units.push_back({"u2", false, "", "", -1, {"second", "metre"}});
    {
        CompSpec c;
        c.name = "c2";
        c.vars.push_back({"v0", "u2"});
        c.cn.push_back("u2");
        f2.comps.push_back(c);
    }
    // f1
    bool wantUnits = rootImports != 1, wantComp = rootImports != 0;
    if (depth == 1) {
        f1.units.push_back({"u1", true, hrefBetween(f1.dir, f2.path), "u2", 2, {}});
    } else if (depth == 2) {
        f1.units.push_back({"iu1", true, hrefBetween(f1.dir, f2.path), "u2", 2, {}});
        f1.units.push_back({"u1", false, "", "", -1, {"kilogram", "iu1"}});
    } else {
        f1.units.push_back({"u1", false, "", "", -1, {"kilogram", "second"}});
    }
    {
        CompSpec c;
        c.name = "c1";
        if (depth == 1 && wantComp) {
            c.imported = true;
            c.href = hrefBetween(f1.dir, f2.path);
            c.ref = "c2";
            c.targetFile = 2;
        } else {
            c.vars.push_back({"v0", "u1"});
            c.cn.push_back("u1");
        }
        f1.comps.push_back(c);
        if (encaps == 2) {
            CompSpec k;
            k.name = "c1_child";
            k.parent = 0;
            k.vars.push_back({"v0", "u1"});
            f1.comps.push_back(k);
        } else if (encaps == 3) {
            CompSpec k;
            k.name = "c1_child";
            k.parent = 0;
            k.imported = true;
            k.href = hrefBetween(f1.dir, f2.path);
            k.ref = "c2";
            k.targetFile = 2;
            f1.comps.push_back(k);
        }
    }
    // root
    root.groupImports = rootImports == 2;
    if (wantUnits) {
        root.units.push_back({"iu0", true, hrefBetween(root.dir, f1.path), "u1", 1, {}});
    }
    root.units.push_back({"u0", false, "", "", -1, wantUnits ? std::vector<std::string> {"volt", "iu0"} : std::vector<std::string> {"volt"}});
    {
        CompSpec c;
        c.name = "c0";
        c.vars.push_back({"v0", wantUnits ? "iu0" : "u0"});
        root.comps.push_back(c);
    }
    if (wantComp) {
        CompSpec c;
        c.name = "ic0";
        c.imported = true;
        c.href = hrefBetween(root.dir, f1.path);
        c.ref = "c1";
        c.targetFile = 1;
        root.comps.push_back(c);
        if (encaps == 1) {
            CompSpec k;
            k.name = "c0_child";
            k.parent = int(root.comps.size()) - 1;
            k.vars.push_back({"v0", "u0"});
            root.comps.push_back(k);
        }
    }
    g.files.push_back(root);
    g.files.push_back(f1);
    if (needF2) {
        g.files.push_back(f2);
    }
    return g;
}

static std::string importElement(const std::string &href, const std::vector<std::string> &children)
{
    std::string s = "  <import xlink:href=\"" + href + "\">\n";
    for (auto &c : children) {
        s += "    " + c + "\n";
    }
    return s + "  </import>\n";
}

static void renderEncapsulation(const FileSpec &f, int parent, const std::string &indent, std::string &out, const char *refElement, const char *attr)
{
    for (size_t i = 0; i < f.comps.size(); ++i) {
        if (f.comps[i].parent != parent) {
            continue;
        }
        bool hasChildren = false;
        for (auto &c : f.comps) {
            hasChildren = hasChildren || c.parent == int(i);
        }
        if (parent < 0 && !hasChildren) {
            continue;
        }
        out += indent + "<" + refElement + " " + attr + "=\"" + f.comps[i].name + "\"";
        if (hasChildren) {
            out += ">\n";
            renderEncapsulation(f, int(i), indent + "  ", out, refElement, attr);
            out += indent + "</" + refElement + ">\n";
        } else {
            out += "/>\n";
        }
    }
}

static std::string noiseBlock(const FileSpec &f)
{
    if (!f.noise) {
        return "";
    }
    // errors that concern no entity another model could import: a unit with a non-numeric exponent in units nobody
    // refers to, and a connection that names a component which does not exist
    std::string first = f.comps.empty() ? std::string("nothing") : f.comps[0].name;
    return "  <units name=\"noise_units\">\n    <unit units=\"second\" exponent=\"abc\"/>\n  </units>\n"
           "  <connection component_1=\"" + first + "\" component_2=\"noise_no_such_component\">\n    <map_variables variable_1=\"v0\" variable_2=\"v0\"/>\n  </connection>\n";
}

std::string render(const FileSpec &f, Offsets *off)
{
    std::string s = "<?xml version=\"1.0\" encoding=\"UTF-8\"?>\n";
    size_t afterDecl = s.size();
    s += "<model xmlns=\"http://www.cellml.org/cellml/2.0#\" xmlns:cellml=\"http://www.cellml.org/cellml/2.0#\" xmlns:xlink=\"http://www.w3.org/1999/xlink\" name=\"";
    size_t inAttr = s.size() + 1;
    s += f.modelName + "\"";
    size_t inStart = s.size();
    s += ">\n";
    size_t between = s.size();
    // imports
    std::map<std::string, std::vector<std::string>> grouped;
    std::vector<std::pair<std::string, std::string>> single;
    for (auto &u : f.units) {
        if (u.imported) {
            std::string e = "<units units_ref=\"" + u.ref + "\" name=\"" + u.name + "\"/>";
            if (f.groupImports) {
                grouped[u.href].push_back(e);
            } else {
                single.emplace_back(u.href, e);
            }
        }
    }
    for (auto &c : f.comps) {
        if (c.imported) {
            std::string e = "<component component_ref=\"" + c.ref + "\" name=\"" + c.name + "\"/>";
            if (f.groupImports) {
                grouped[c.href].push_back(e);
            } else {
                single.emplace_back(c.href, e);
            }
        }
    }
    for (auto &g : grouped) {
        s += importElement(g.first, g.second);
    }
    for (auto &g : single) {
        s += importElement(g.first, {g.second});
    }
    for (auto &u : f.units) {
        if (!u.imported) {
            s += "  <units name=\"" + u.name + "\"" + (u.flaw != 0 ? " bogus_attribute=\"1\"" : "") + ">\n";
            for (auto &c : u.children) {
                s += "    <unit units=\"" + c + "\"/>\n";
            }
            s += "  </units>\n";
            between = s.size();
        }
    }
    for (auto &c : f.comps) {
        if (c.imported) {
            continue;
        }
        s += "  <component name=\"" + c.name + "\"" + (c.flaw == 1 || (c.flaw != 0 && c.vars.empty()) ? " bogus_attribute=\"1\"" : "") + ">\n";
        bool flawVariable = c.flaw == 2;
        for (auto &v : c.vars) {
            s += "    <variable name=\"" + v.name + "\" units=\"" + v.units + "\" interface=\"public\"" + (flawVariable ? " bogus_attribute=\"1\"" : "") + "/>\n";
            flawVariable = false;
        }
        if (!c.cn.empty() && !c.vars.empty()) {
            s += "    <math xmlns=\"http://www.w3.org/1998/Math/MathML\">\n";
            for (auto &u : c.cn) {
                s += "      <apply><eq/><ci>" + c.vars[0].name + "</ci><cn cellml:units=\"" + u + "\">1</cn></apply>\n";
            }
            s += "    </math>\n";
        }
        s += "  </component>\n";
    }
    std::string enc;
    renderEncapsulation(f, -1, "    ", enc, "component_ref", "component");
    if (!enc.empty()) {
        s += "  <encapsulation>\n" + enc + "  </encapsulation>\n";
    }
    s += noiseBlock(f);
    s += "</model>";
    size_t afterRoot = s.size();
    size_t inLast = s.size() - 3;
    s += "\n<!-- trailing comment after the root element -->\n";
    if (off != nullptr) {
        off->afterDecl = afterDecl;
        off->inRootStartTag = inStart;
        off->inAttributeValue = inAttr;
        off->betweenElements = between;
        off->inLastEndTag = inLast;
        off->afterRootEnd = afterRoot;
        off->total = s.size();
    }
    return s;
}

// (flaws - attributes the 2.0 parser reports as errors on an entity - are a CellML 2.0 notion here: not rendered)
std::string render11(const FileSpec &f)
{
    // CellML 1.1: units may be imported and defined the same way; encapsulation is a group.
    std::string s = "<?xml version=\"1.0\" encoding=\"UTF-8\"?>\n";
    s += "<model xmlns=\"http://www.cellml.org/cellml/1.1#\" xmlns:cellml=\"http://www.cellml.org/cellml/1.1#\" xmlns:xlink=\"http://www.w3.org/1999/xlink\" name=\"" + f.modelName + "\">\n";
    for (auto &u : f.units) {
        if (u.imported) {
            s += importElement(u.href, {"<units units_ref=\"" + u.ref + "\" name=\"" + u.name + "\"/>"});
        }
    }
    for (auto &c : f.comps) {
        if (c.imported) {
            s += importElement(c.href, {"<component component_ref=\"" + c.ref + "\" name=\"" + c.name + "\"/>"});
        }
    }
    for (auto &u : f.units) {
        if (!u.imported) {
            s += "  <units name=\"" + u.name + "\">\n";
            for (auto &c : u.children) {
                s += "    <unit units=\"" + c + "\"/>\n";
            }
            s += "  </units>\n";
        }
    }
    for (auto &c : f.comps) {
        if (c.imported) {
            continue;
        }
        s += "  <component name=\"" + c.name + "\">\n";
        for (auto &v : c.vars) {
            s += "    <variable name=\"" + v.name + "\" units=\"" + v.units + "\" public_interface=\"out\"/>\n";
        }
        if (!c.cn.empty() && !c.vars.empty()) {
            s += "    <math xmlns=\"http://www.w3.org/1998/Math/MathML\">\n";
            for (auto &u : c.cn) {
                s += "      <apply><eq/><ci>" + c.vars[0].name + "</ci><cn cellml:units=\"" + u + "\">1</cn></apply>\n";
            }
            s += "    </math>\n";
        }
        s += "  </component>\n";
    }
    std::string enc;
    renderEncapsulation(f, -1, "    ", enc, "component_ref", "component");
    if (!enc.empty()) {
        s += "  <group>\n    <relationship_ref relationship=\"encapsulation\"/>\n" + enc + "  </group>\n";
    }
    s += noiseBlock(f);
    s += "</model>\n";
    return s;
}

// ---------------------------------------------------------------- VFS

namespace {

class ThrowingBuf: public std::streambuf
{
public:
    explicit ThrowingBuf(std::string data)
        : mData(std::move(data))
    {
        setg(&mData[0], &mData[0], &mData[0] + mData.size());
    }

protected:
    int_type underflow() override
    {
        throw std::ios_base::failure("simulated read failure");
    }

private:
    std::string mData;
};

class StringBuf: public std::streambuf
{
public:
    explicit StringBuf(std::string data)
        : mData(std::move(data))
    {
        char *b = mData.empty() ? nullptr : &mData[0];
        setg(b, b, b + mData.size());
    }

private:
    std::string mData;
};

} // namespace

int Vfs::registerVersion(const FileVersion &v)
{
    FileVersion c = v;
    c.id = int(versions.size());
    versions.push_back(c);
    return c.id;
}

int Vfs::addVersion(const FileVersion &v, const std::string &path)
{
    FileVersion c = v;
    c.id = int(versions.size());
    versions.push_back(c);
    current[path] = c.id;
    return c.id;
}

const FileVersion *Vfs::at(const std::string &normPath) const
{
    auto it = current.find(normPath);
    if (it == current.end()) {
        return nullptr;
    }
    return &versions[size_t(it->second)];
}

std::string Vfs::absolute(const std::string &url) const
{
    return normalisePath(!url.empty() && url[0] == '/' ? url : cwd + url);
}

std::streambuf *Vfs::open(const std::string &url)
{
    size_t index = opensThisCall++;
    if (onOpen) {
        onOpen(index);
    }
    OpenRecord rec;
    rec.url = url;
    rec.path = absolute(url);
    std::streambuf *result = nullptr;
    const FileVersion *v = url.size() > 4096 ? nullptr : at(rec.path); // PATH_MAX: the open fails with ENAMETOOLONG
    if (v != nullptr) {
        rec.version = v->id;
        if (v->opens()) {
            rec.opened = true;
            std::string bytes = v->served();
            rec.bytes = bytes.size();
            if (v->load == Load::READFAIL_THROW) {
                buffers.emplace_back(new ThrowingBuf(bytes));
            } else {
                buffers.emplace_back(new StringBuf(bytes));
            }
            result = buffers.back().get();
        }
    }
    log.push_back(rec);
    return result;
}

// ---------------------------------------------------------------- reference resolver

namespace {

struct Resolver
{
    const View &view;
    bool strict;
    bool libraryWalk = false;
    int lastVersion = -1; // version id of what load() returned last
    RefResult res;
    std::set<std::string> onStack;
    std::set<std::string> done;

    Resolver(const View &v, bool s)
        : view(v)
        , strict(s)
    {
    }

    void fail(Verdict v, const std::string &why)
    {
        if (res.verdict == Verdict::SAT || (res.verdict == Verdict::UNDETERMINED && v == Verdict::UNSAT)) {
            res.verdict = v;
            res.why = why;
        }
    }

    // the model a file loads as, or nullptr when the load fails
    // `href` is the import's URL as written: a library model stored under exactly that key is used before any file
    // `rawUrl` is base + href as the importer concatenates them: a library model stored under exactly that spelling is
    // used next (another spelling of the same file - 'b/../f.cellml' - is another key and makes the importer read the file)
    const FileSpec *load(const std::string &path, FileSpec &scratch, const std::string &href, const std::string &rawUrl)
    {
        res.pathsNeeded.insert(path);
        const FileVersion *v = view("href:" + href);
        if (v == nullptr) {
            v = view("raw:" + rawUrl);
        }
        // a model that sits in the library was read in the mode the importer had then, whatever its mode is now
        bool effectiveStrict = v != nullptr && v->parsedStrict >= 0 ? v->parsedStrict != 0 : strict;
        if (v == nullptr) {
            v = view(path);
        }
        if (v == nullptr) {
            fail(Verdict::UNSAT, "missing file " + path);
            return nullptr;
        }
        if (!v->opens()) {
            fail(Verdict::UNSAT, "cannot open " + path + " (" + v->tag + ")");
            return nullptr;
        }
        if (!v->wellFormed()) {
            fail(Verdict::UNSAT, "not well-formed " + path + " (" + v->tag + ")");
            return nullptr;
        }
        lastVersion = v->id;
        if (v->load == Load::NONCELLML || ((v->load == Load::CELLML11 || v->load == Load::NOISY11) && effectiveStrict)) {
            scratch = FileSpec();
            scratch.path = v->spec.path;
            scratch.dir = v->spec.dir;
            return &scratch; // loads as a model without any entity
        }
        return &v->spec;
    }

    // role (only looked at in the library-walk evaluation): FULL everything counts; SOURCE the units/component an import
    // refers to, in a library file; USED a units named by such a component; CHILD a non-imported component below one
    enum Role { FULL, SOURCE, USED, CHILD };
    bool isClientModel(const FileSpec &f) const { return f.path.compare(0, 1, "<") == 0; }

    bool needUnits(const FileSpec &f, const std::string &name, Role role = FULL)
    {
        if (!libraryWalk || isClientModel(f)) {
            role = FULL;
        }
        if (isStandardUnit(name)) {
            return true;
        }
        // an entity is a (file, version served, name): a model handed to the library and the file on disk may differ
        std::string key = f.path + "#" + std::to_string(f.servedVersion) + "|u|" + name;
        std::string doneKey = key + "|" + std::to_string(int(role));
        if (done.count(doneKey) != 0) {
            return true;
        }
        int ui = f.findUnits(name);
        if (ui < 0) {
            fail(Verdict::UNSAT, "units " + name + " not found in " + f.path);
            return false;
        }
        if (onStack.count(key) != 0) {
            const UnitsSpec &u = f.units[size_t(ui)];
            (void)u;
            // a dependency loop: through imports it is an import cycle (UNSAT); a loop of ordinary units only is UNDETERMINED
            fail(cycleThroughImport(key) ? Verdict::UNSAT : Verdict::UNDETERMINED, "cyclic dependency at " + key);
            return false;
        }
        onStack.insert(key);
        stack.push_back(key);
        const UnitsSpec &u = f.units[size_t(ui)];
        bool ok = true;
        if (u.imported) {
            stackImport.push_back(true);
            FileSpec scratch;
            std::string rawBase = f.rawDirSet ? f.rawDir : f.dir;
            std::string rawUrl = libraryResolvePath(u.href, rawBase); // the exact spelling the importer arrives at
            const FileSpec *g = load(normalisePath(f.dir + u.href), scratch, u.href, rawUrl);
            if (g == nullptr) {
                ok = false;
            } else if (g->findUnits(u.ref) < 0) {
                fail(Verdict::UNSAT, "units " + u.ref + " not found in " + g->path);
                ok = false;
            } else if (g->units[size_t(g->findUnits(u.ref))].flaw != 0) {
                fail(Verdict::UNSAT, "units " + u.ref + " in " + g->path + " has a parser error of its own");
                ok = false;
            } else {
                FileSpec copy = *g;
                copy.rawUrl = rawUrl;
                    copy.servedVersion = lastVersion;
                copy.rawDir = rawBase.substr(0, rawBase.find_last_of('/') + 1) + u.href.substr(0, u.href.find_last_of('/') + 1); // as the importer builds the next base: base + directory part of the URL, as written
                copy.rawDirSet = true;
                FileScope scope(*this, copy.path);
                ok = needUnits(copy, u.ref, SOURCE);
            }
        } else {
            stackImport.push_back(false);
            for (auto &c : u.children) {
                if (role == USED) {
                    break; // the importer does not look below a non-imported units that a component names
                }
                if (role == SOURCE && !isStandardUnit(c)) {
                    // of the units an import refers to, the importer follows the children that are imports themselves
                    int ci = f.findUnits(c);
                    if (ci >= 0 && !f.units[size_t(ci)].imported) {
                        continue;
                    }
                }
                if (!needUnits(f, c, role == SOURCE ? SOURCE : FULL)) {
                    ok = false;
                    break;
                }
            }
        }
        stackImport.pop_back();
        stack.pop_back();
        onStack.erase(key);
        if (ok) {
            done.insert(doneKey);
        }
        return ok;
    }

    bool needComp(const FileSpec &f, int ci, Role role = FULL)
    {
        if (!libraryWalk || isClientModel(f)) {
            role = FULL;
        }
        const CompSpec &c = f.comps[size_t(ci)];
        std::string key = f.path + "#" + std::to_string(f.servedVersion) + "|c|" + c.name;
        std::string doneKey = key + "|" + std::to_string(int(role));
        if (done.count(doneKey) != 0) {
            return true;
        }
        if (onStack.count(key) != 0) {
            fail(Verdict::UNSAT, "cyclic dependency at " + key);
            return false;
        }
        onStack.insert(key);
        stack.push_back(key);
        stackImport.push_back(c.imported);
        bool ok = true;
        if (c.imported) {
            FileSpec scratch;
            std::string rawBase = f.rawDirSet ? f.rawDir : f.dir;
            std::string rawUrl = libraryResolvePath(c.href, rawBase);
            const FileSpec *g = load(normalisePath(f.dir + c.href), scratch, c.href, rawUrl);
            if (g == nullptr) {
                ok = false;
            } else {
                int ti = g->findComp(c.ref);
                if (ti < 0) {
                    fail(Verdict::UNSAT, "component " + c.ref + " not found in " + g->path);
                    ok = false;
                } else if (g->comps[size_t(ti)].flaw != 0) {
                    fail(Verdict::UNSAT, "component " + c.ref + " in " + g->path + " has a parser error of its own");
                    ok = false;
                } else {
                    FileSpec copy = *g;
                    copy.rawUrl = rawUrl;
                    copy.servedVersion = lastVersion;
                    copy.rawDir = rawBase.substr(0, rawBase.find_last_of('/') + 1) + c.href.substr(0, c.href.find_last_of('/') + 1); // as the importer builds the next base: base + directory part of the URL, as written
                copy.rawDirSet = true;
                    FileScope scope(*this, copy.path);
                    ok = needComp(copy, ti, SOURCE);
                }
            }
        } else if (role != CHILD) { // (the importer does not look at the units of a non-imported component below an imported one)
            for (auto &v : c.vars) {
                if (ok && !needUnits(f, v.units, role == SOURCE ? USED : FULL)) {
                    ok = false;
                }
            }
            for (auto &u : c.cn) {
                if (ok && !needUnits(f, u, role == SOURCE ? USED : FULL)) {
                    ok = false;
                }
            }
        }
        for (size_t k = 0; ok && k < f.comps.size(); ++k) {
            if (f.comps[k].parent == ci) {
                ok = needComp(f, int(k), role == FULL ? FULL : CHILD);
            }
        }
        stackImport.pop_back();
        stack.pop_back();
        onStack.erase(key);
        if (ok) {
            done.insert(doneKey);
        }
        return ok;
    }

    std::vector<std::string> stack;
    std::vector<bool> stackImport;
    std::vector<std::string> fileStack; // files along the current dependency path
    bool fileCycleSeen = false; // a file was re-entered while none of its entities was on the path (excluded shape)

    struct FileScope
    {
        Resolver &r;
        FileScope(Resolver &res, const std::string &path)
            : r(res)
        {
            if (std::find(r.fileStack.begin(), r.fileStack.end(), path) != r.fileStack.end()) {
                r.fileCycleSeen = true;
            }
            r.fileStack.push_back(path);
        }
        ~FileScope() { r.fileStack.pop_back(); }
    };

    bool cycleThroughImport(const std::string &key)
    {
        // is there an import edge on the stack between the first occurrence of key and the top?
        bool inside = false, viaImport = false;
        for (size_t i = 0; i < stack.size(); ++i) {
            if (stack[i] == key) {
                inside = true;
            }
            if (inside && stackImport[i]) {
                viaImport = true;
            }
        }
        return viaImport;
    }
};

} // namespace

RefResult referenceResolve(const FileSpec &rootOnDisk, const View &view, bool strict, bool libraryWalk)
{
    Resolver r(view, strict);
    r.libraryWalk = libraryWalk;
    // the client's in-memory model is not the file of the same path on disk
    FileSpec root = rootOnDisk;
    root.path = "<client model parsed from " + rootOnDisk.path + ">";
    r.fileStack.push_back(rootOnDisk.path);
    // every import of the root model must be satisfiable; evaluate all of them (the first reason is kept)
    for (auto &u : root.units) {
        r.needUnits(root, u.name);
    }
    for (size_t i = 0; i < root.comps.size(); ++i) {
        if (root.comps[i].parent < 0) {
            r.needComp(root, int(i));
        }
    }
    if (r.fileCycleSeen && r.res.verdict == Verdict::SAT) {
        // files import from each other although no entity depends on itself: excluded by the property
        r.res.verdict = Verdict::UNDETERMINED;
        r.res.why = "files import from each other although no entity depends on itself (excluded shape)";
    }
    return r.res;
}

} // namespace iw
