// Engine `purity` (C12): several clients share one process; the scheduler interleaves their service
// calls (parse / print / validate / analyse / generate / resolve / flatten / clone / equals) on fresh
// and reused service instances.  Oracles: same call = same answer anywhere in the run; the same step
// executed in isolation (dependency slice in a fresh process) gives the same answer; the same plan
// under another heap layout gives the same answers; inputs are left unchanged; results a client
// still holds are not rewritten by later calls.
#include <algorithm>
#include <dirent.h>
#include <fstream>
#include <functional>
#include <map>
#include <set>
#include <sstream>
#include <sys/stat.h>

#include <libcellml/module/libcellml>
#include <libxml/globals.h>

#include "alloc.h"
#include "dump.h"
#include "kernel.h"
#include "modelgen.h"
#include "monitor.h"

using namespace libcellml;
using namespace sim;

namespace {

// ---------------------------------------------------------------- corpus (loaded once by the zygote; plain file reads)

struct Doc
{
    std::string path, dir, text;
    bool analysable = false; // lives under generator/ or analyser/: worth analysing
    bool hasImports = false;
    bool hasResets = false;
    bool synthetic = false; // written here, not read from tests/resources (appended after the files so that indices stay put)
};

std::vector<Doc> &corpus()
{
    static std::vector<Doc> docs;
    return docs;
}

void walk(const std::string &dir, std::vector<std::string> &out)
{
    DIR *d = opendir(dir.c_str());
    if (d == nullptr) {
        return;
    }
    std::vector<std::string> names;
    while (auto *e = readdir(d)) {
        std::string n = e->d_name;
        if (n != "." && n != "..") {
            names.push_back(n);
        }
    }
    closedir(d);
    std::sort(names.begin(), names.end());
    for (auto &n : names) {
        std::string p = dir + "/" + n;
        struct stat st;
        if (stat(p.c_str(), &st) != 0) {
            continue;
        }
        if (S_ISDIR(st.st_mode)) {
            walk(p, out);
        } else if (st.st_size <= 24000 && (p.size() > 7 && (p.compare(p.size() - 7, 7, ".cellml") == 0 || p.compare(p.size() - 4, 4, ".xml") == 0))) {
            out.push_back(p);
        }
    }
}

void loadCorpus()
{
    if (!corpus().empty()) {
        return;
    }
    const char *root = getenv("VERIF_REPO");
    std::string base = std::string(root != nullptr ? root : "/repo") + "/tests/resources";
    std::vector<std::string> files;
    walk(base, files);
    for (auto &f : files) {
        std::ifstream in(f);
        std::stringstream ss;
        ss << in.rdbuf();
        Doc d;
        d.path = f;
        d.dir = f.substr(0, f.find_last_of('/') + 1);
        d.text = ss.str();
        d.analysable = f.find("/generator/") != std::string::npos || f.find("/analyser/") != std::string::npos;
        d.hasResets = d.text.find("<reset") != std::string::npos;
        d.hasImports = d.text.find("<import") != std::string::npos;
        corpus().push_back(d);
    }
    // A pair that a parser's memory of the previous document would show on: a CellML 1.1 model, and CellML 2.0 documents
    // that carry 1.x-only constructs (public_interface, foreign attributes, the American unit names) - errors in 2.0,
    // tolerated or rewritten when reading 1.x.
    static const char *const synthetic[] = {
        "<?xml version=\"1.0\"?>\n<model xmlns=\"http://www.cellml.org/cellml/1.1#\" xmlns:cellml=\"http://www.cellml.org/cellml/1.1#\" name=\"old_style\">\n"
        "  <component name=\"c\">\n    <variable name=\"x\" units=\"meter\" public_interface=\"out\"/>\n    <variable name=\"y\" units=\"liter\" initial_value=\"1\"/>\n  </component>\n</model>\n",
        "<?xml version=\"1.0\"?>\n<model xmlns=\"http://www.cellml.org/cellml/2.0#\" name=\"new_style_with_old_habits\">\n"
        "  <component name=\"c\" author=\"somebody\">\n    <variable name=\"x\" units=\"meter\" public_interface=\"out\"/>\n    <variable name=\"y\" units=\"liter\" initial_value=\"1\"/>\n  </component>\n</model>\n",
        "<?xml version=\"1.0\"?>\n<model xmlns=\"http://www.cellml.org/cellml/2.0#\" name=\"valid_but_american\">\n"
        "  <units name=\"meter\">\n    <unit units=\"metre\"/>\n  </units>\n"
        "  <component name=\"c\">\n    <variable name=\"x\" units=\"meter\" interface=\"public\"/>\n  </component>\n</model>\n",
        "<?xml version=\"1.0\"?>\n<model xmlns=\"http://www.cellml.org/cellml/1.0#\" xmlns:cellml=\"http://www.cellml.org/cellml/1.0#\" name=\"older_style\">\n"
        "  <component name=\"k\">\n    <variable name=\"t\" units=\"second\" public_interface=\"in\" private_interface=\"out\"/>\n  </component>\n</model>\n",
    };
    for (auto text : synthetic) {
        Doc d;
        d.path = "<synthetic document " + str(corpus().size()) + ">";
        d.dir = base + "/";
        d.text = text;
        d.synthetic = true;
        corpus().push_back(d);
    }
}

// ---------------------------------------------------------------- plan generation

Step mk(int task, const std::string &op, std::vector<long> a)
{
    Step s;
    s.task = task;
    s.op = op;
    s.a = std::move(a);
    return s;
}

Plan generate(Rng &rng, const Opts &opts, uint64_t)
{
    loadCorpus();
    Plan p;
    p.engine = "purity";
    long nTasks = opts.f("tasks", rng.range(2, 4));
    long nSteps = rng.range(6, opts.tier == "thorough" ? 30 : 22);
    p.cfg["policy"] = opts.f("policy", long(rng.below(3)));
    p.cfg["allocseed"] = long(rng.below(1u << 30));
    p.cfg["probes"] = opts.f("probes", 2);
    p.cfg["probeseed"] = long(rng.below(1u << 30));
    p.cfg["layoutaux"] = opts.f("layoutaux", 1);
    // a small set of documents per run so that the same text is parsed several times
    std::vector<long> docs;
    long nDocs = rng.range(1, 3);
    bool wantAnalysable = rng.chance(2, 3);
    bool wantResets = rng.chance(1, 5); // documents with resets are few; some runs ask for them
    bool wantSynthetic = rng.chance(1, 8); // the 1.x / 2.0-with-old-habits documents, several of them in one run
    if (wantSynthetic) {
        nDocs = 3;
    }
    for (long i = 0; i < nDocs; ++i) {
        for (int tries = 0; tries < 50; ++tries) {
            long d = long(rng.below(corpus().size()));
            if (wantSynthetic) {
                size_t nSynthetic = 0;
                for (auto &doc : corpus()) {
                    nSynthetic += doc.synthetic ? 1 : 0;
                }
                docs.push_back(long(corpus().size() - nSynthetic + rng.below(nSynthetic)));
                break;
            }
            if (wantResets && !corpus()[size_t(d)].hasResets && tries <= 40) {
                continue;
            }
            if (wantResets || !wantAnalysable || corpus()[size_t(d)].analysable || tries > 40) {
                docs.push_back(d);
                break;
            }
        }
    }
    if (docs.empty()) {
        docs.push_back(0);
    }
    std::vector<std::vector<long>> models(static_cast<size_t>(nTasks)), amodels(static_cast<size_t>(nTasks));
    std::map<long, long> docOf; // model sid -> doc (or -1)
    long sid = 0;
    for (long s = 0; s < nSteps; ++s) {
        int t = int(rng.below(uint64_t(nTasks)));
        auto &ms = models[size_t(t)];
        auto &as = amodels[size_t(t)];
        unsigned r = unsigned(rng.below(100));
        long inst = rng.chance(1, 2) ? 0 : long(1 + rng.below(2)); // 0 = fresh instance, n = shared named instance
        ++sid;
        if (ms.empty() || r < 22) {
            if (rng.chance(1, 6)) {
                long flavour = long(rng.below(2) == 0 ? 1 + rng.below(3) : 0);
                p.steps.push_back(mk(t, "BUILD", {sid, long(rng.below(1000)), flavour}));
                docOf[sid] = -1;
                if (flavour == 3) {
                    // both variants of the same-units-name model, each analysed by the same shared analyser
                    // instance (steps of any task: the handles are global)
                    long first = sid, base = p.steps.back().a[1];
                    ms.push_back(first);
                    long second = ++sid;
                    p.steps.push_back(mk(t, "BUILD", {second, base + 1, 3}));
                    docOf[second] = -1;
                    for (long m : {first, second, first}) {
                        ++sid;
                        p.steps.push_back(mk(int(rng.below(uint64_t(nTasks))), "ANALYSE", {sid, m, 1, 0}));
                    }
                    ms.push_back(second);
                    continue;
                }
            } else {
                long d = docs[rng.below(docs.size())];
                bool discard = rng.chance(1, 8); // the client does not keep the model: only the parser's issues refer to it
                long strictParser = long(rng.below(4) != 0), parserInst = inst;
                if (wantSynthetic && rng.chance(3, 4)) {
                    strictParser = 0; // mostly the permissive parser, and mostly one and the same
                    parserInst = rng.chance(3, 4) ? 1 : 0;
                }
                p.steps.push_back(mk(t, "PARSE", {sid, d, strictParser, parserInst, discard ? 1 : 0}));
                docOf[sid] = d;
                if (discard) {
                    continue;
                }
            }
            ms.push_back(sid);
        } else if (r < 38) {
            p.steps.push_back(mk(t, "PRINT", {sid, ms[rng.below(ms.size())], long(rng.below(4) == 0), inst}));
        } else if (r < 52) {
            p.steps.push_back(mk(t, "VALIDATE", {sid, ms[rng.below(ms.size())], inst}));
        } else if (r < 66) {
            p.steps.push_back(mk(t, "ANALYSE", {sid, ms[rng.below(ms.size())], inst, long(rng.below(3) == 0 ? 1 + rng.below(2) : 0)}));
            as.push_back(sid);
        } else if (r < 76 && !as.empty()) {
            p.steps.push_back(mk(t, "GENERATE", {sid, as[rng.below(as.size())], long(rng.below(2)), inst}));
        } else if (r < 84) {
            long m = ms[rng.below(ms.size())];
            p.steps.push_back(mk(t, "RESOLVE", {sid, m, inst, long(rng.below(2))}));
            if (inst != 0 && rng.chance(1, 2)) {
                // the same call again, at once, on the same importer: nothing but the call itself lies in between
                ++sid;
                p.steps.push_back(mk(t, "RESOLVE", {sid, m, inst, p.steps.back().a[3], 1}));
            }
            if (rng.chance(2, 3)) {
                ++sid;
                p.steps.push_back(mk(t, "FLATTEN", {sid, m, inst}));
            }
        } else if (r < 89) {
            p.steps.push_back(mk(t, "CLONE", {sid, ms[rng.below(ms.size())]}));
            ms.push_back(sid);
        } else if (r >= 97) {
            // the client edits one identifier of one of its models (services that remember anything about the model must notice)
            p.steps.push_back(mk(t, "EDIT", {sid, ms[rng.below(ms.size())], long(rng.below(9 * 8 * 7 * 5)), long(rng.below(16)), long(rng.below(3))}));
            if (rng.chance(1, 3)) {
                // ... or writes math that is not well-formed XML into it (an editor saving a half-typed equation); a service
                // that has dealt with such a model says about the next model what a fresh one says
                p.steps.back().a.push_back(long(1 + rng.below(2)));
                long m = p.steps.back().a[1], service = long(1 + rng.below(2));
                ++sid;
                p.steps.push_back(mk(t, "PRINT", {sid, m, 0, service}));
                ++sid;
                p.steps.push_back(mk(t, "VALIDATE", {sid, m, service}));
                ++sid;
                p.steps.push_back(mk(t, "PRINT", {sid, ms[rng.below(ms.size())], long(rng.below(4) == 0), service}));
                ++sid;
                p.steps.push_back(mk(t, "VALIDATE", {sid, ms[rng.below(ms.size())], service}));
            }
        } else if (r >= 95 && ms.size() > 1) {
            // the client lets go of a model; what services still say about it (issues and their items) must stay coherent
            size_t k = rng.below(ms.size());
            p.steps.push_back(mk(t, "DROP", {sid, ms[k]}));
            ms.erase(ms.begin() + long(k));
        } else if (r < 94) {
            p.steps.push_back(mk(t, "ANNOT", {sid, ms[rng.below(ms.size())], inst}));
            if (inst != 0 && rng.chance(2, 3)) {
                // the same annotator handed another model straight away (often one with the same ids in the same places)
                ++sid;
                p.steps.push_back(mk(t, "ANNOT", {sid, ms[rng.below(ms.size())], inst}));
            }
            if (inst != 0 && rng.chance(1, 2)) {
                // ... or asked again about the model it already has, after the client has edited one identifier of it
                long m = p.steps.back().a[1];
                long rounds = rng.range(1, 4);
                for (long k = 0; k < rounds; ++k) {
                    ++sid;
                    p.steps.push_back(mk(t, "EDIT", {sid, m, long(rng.below(9 * 8 * 7 * 5)), long(rng.below(16)), long(rng.below(3))}));
                    ++sid;
                    p.steps.push_back(mk(t, "ANNOT", {sid, m, inst}));
                }
            }
        } else {
            p.steps.push_back(mk(t, "EQUALS", {sid, ms[rng.below(ms.size())], ms[rng.below(ms.size())]}));
        }
    }
    return p;
}

// which earlier steps does step i depend on (documented state only)?
std::set<size_t> sliceFor(const Plan &p, size_t probe)
{
    std::map<long, size_t> producer; // sid -> step index
    for (size_t i = 0; i < p.steps.size(); ++i) {
        producer[p.steps[i].arg(0)] = i;
    }
    std::set<size_t> need;
    std::vector<size_t> todo {probe};
    while (!todo.empty()) {
        size_t i = todo.back();
        todo.pop_back();
        if (!need.insert(i).second) {
            continue;
        }
        const Step &s = p.steps[i];
        auto dep = [&](long handle) {
            auto it = producer.find(handle);
            if (it != producer.end() && it->second < i) {
                todo.push_back(it->second);
            }
        };
        if (s.op == "EDIT" || s.op == "DROP") {
            dep(s.arg(1));
        }
        if (s.op != "BUILD" && s.op != "PARSE" && s.op != "EQUALS") {
            // every earlier edit of the model this step works on belongs to the slice
            for (size_t j = 0; j < i; ++j) {
                if (p.steps[j].op == "EDIT" && p.steps[j].arg(1) == s.arg(1)) {
                    todo.push_back(j);
                }
            }
        }
        if (s.op == "PRINT" || s.op == "VALIDATE" || s.op == "ANALYSE" || s.op == "CLONE" || s.op == "ANNOT" || s.op == "GENERATE" || s.op == "RESOLVE" || s.op == "FLATTEN") {
            dep(s.arg(1));
        }
        if (s.op == "EQUALS") {
            dep(s.arg(1));
            dep(s.arg(2));
        }
        if (s.op == "RESOLVE" || s.op == "FLATTEN") {
            // the importer's library and the model's import links are documented state:
            // every earlier RESOLVE of that model or on that named importer is part of the slice
            for (size_t j = 0; j < i; ++j) {
                const Step &e = p.steps[j];
                if (e.op == "RESOLVE" && (e.arg(1) == s.arg(1) || (s.arg(2) != 0 && e.arg(2) == s.arg(2)))) {
                    todo.push_back(j);
                }
            }
        }
    }
    return need;
}

std::vector<Plan> auxiliary(const Plan &p)
{
    std::vector<Plan> out;
    if (p.c("aux", 0) != 0) {
        return out; // an auxiliary plan has no auxiliaries of its own
    }
    if (p.c("layoutaux", 1) != 0 && simalloc::active()) {
        Plan q = p;
        q.cfg["aux"] = 1;
        q.cfg["policy"] = (p.c("policy", 0) + 1) % 3;
        q.cfg["allocseed"] = p.c("allocseed", 1) + 7;
        out.push_back(q);
    }
    long probes = p.c("probes", 0);
    if (probes > 0 && !p.steps.empty()) {
        Rng rng(mixSeed(uint64_t(p.c("probeseed", 1)), "purity-probes", 0));
        std::set<size_t> chosen;
        for (long k = 0; k < probes * 3 && long(chosen.size()) < probes; ++k) {
            size_t i = size_t(rng.below(p.steps.size()));
            const std::string &op = p.steps[i].op;
            if (op != "BUILD" && op != "EQUALS" && op != "EDIT" && op != "DROP") {
                chosen.insert(i);
            }
        }
        for (size_t probe : chosen) {
            auto need = sliceFor(p, probe);
            if (need.size() == p.steps.size()) {
                continue;
            }
            Plan q = p;
            q.cfg["aux"] = 2;
            q.steps.clear();
            for (size_t i : need) {
                q.steps.push_back(p.steps[i]);
            }
            out.push_back(q);
        }
    }
    return out;
}

// ---------------------------------------------------------------- execution

struct Held
{
    long sid;
    std::string kind, producedBy, dumpAtReturn;
    ModelPtr model;
    AnalyserModelPtr amodel;
};

struct Seen
{
    std::string digest, norm, text;
    long sid;
    int kb;
    std::string instanceKind;
};

struct World
{
    std::map<long, ModelPtr> models;
    std::map<long, long> modelDoc;
    std::map<long, AnalyserModelPtr> amodels;
    std::map<long, ModelPtr> amodelSource;
    std::map<long, ParserPtr> parsers;
    std::map<long, PrinterPtr> printers;
    std::map<long, ValidatorPtr> validators;
    std::map<long, AnalyserPtr> analysers;
    std::map<long, GeneratorPtr> generators;
    std::map<long, ImporterPtr> importers;
    std::map<long, AnnotatorPtr> annotators;
    std::map<std::string, Seen> seen; // call identity -> first observation
    std::map<std::string, std::string> lastResolve; // (importer instance, model) -> verdict and issues of the last resolveImports
    std::vector<Held> held;
};

std::string dg(const std::string &s)
{
    return hex64(fnv(s));
}

std::string firstDifference(const std::string &a, const std::string &b)
{
    size_t i = 0;
    while (i < a.size() && i < b.size() && a[i] == b[i]) {
        ++i;
    }
    size_t from = i > 40 ? i - 40 : 0;
    return "...'" + esc(a.substr(from, 100)) + "' vs '" + esc(b.substr(from, 100)) + "'";
}

// The importer's library is documented state: keys and the content of the models held.
std::string libraryState(const ImporterPtr &imp, bool normalise)
{
    DumpOpts o;
    o.importResolved = true;
    o.normaliseMathWhitespace = normalise;
    std::string s;
    for (size_t i = 0; i < imp->libraryCount(); ++i) {
        s += imp->key(i) + ";\n" + dumpModel(imp->library(i), o);
    }
    return s;
}

void execute(const Plan &plan, Ctx &ctx)
{
    loadCorpus();
    simalloc::beginRun(int(plan.c("policy", 0)), uint64_t(plan.c("allocseed", 1)));
    long aux = plan.c("aux", 0);
    World w;
    DumpOpts withLinks; // the identity of an argument: everything, including the order of equivalence lists and import links
    withLinks.importResolved = true;
    withLinks.sortEquivalences = false;
    // ... and, through the import sources that have a model attached, every model reachable from it: what a service says about
    // a model with resolved imports is a function of all of them (a library model left half linked by a failed resolution
    // is a different argument from the same model fully linked)
    auto argDump = [&](const ModelPtr &model) {
        std::string out;
        std::vector<ModelPtr> order {model};
        std::map<const Model *, size_t> index {{model.get(), 0}};
        for (size_t k = 0; k < order.size() && model != nullptr; ++k) {
            ModelPtr m = order[k];
            out += "@" + str(k) + "{" + dumpModel(m, withLinks) + "}";
            std::vector<ImportSourcePtr> sources; // in traversal order, each once
            auto note = [&](const ImportSourcePtr &src) {
                if (src != nullptr && std::find(sources.begin(), sources.end(), src) == sources.end()) {
                    sources.push_back(src);
                }
            };
            for (size_t i = 0; i < m->unitsCount(); ++i) {
                if (m->units(i)->isImport()) {
                    note(m->units(i)->importSource());
                }
            }
            std::vector<ComponentPtr> cs;
            allComponents(m, cs);
            for (auto &c : cs) {
                if (c->isImport()) {
                    note(c->importSource());
                }
            }
            for (size_t i = 0; i < sources.size(); ++i) {
                auto linked = sources[i]->model();
                if (linked == nullptr) {
                    continue;
                }
                auto it = index.find(linked.get());
                if (it == index.end()) {
                    it = index.emplace(linked.get(), order.size()).first;
                    order.push_back(linked);
                }
                out += "[" + str(i) + "->@" + str(it->second) + "]";
            }
        }
        return out;
    };
    DumpOpts normalised;
    normalised.normaliseMathWhitespace = true;
    ctx.count(aux == 0 ? "purity_main_runs" : (aux == 1 ? "purity_layout_twin_runs" : "purity_isolation_slice_runs"));
    if (simalloc::active() && plan.c("policy", 0) != 0) {
        ctx.count(plan.c("policy", 0) == 1 ? "fault_layout_reversed" : "fault_layout_shuffled");
    }

    int stepNo = -1;
    for (auto &s : plan.steps) {
        ++stepNo;
        long sid = s.arg(0);
        int kb = xmlKeepBlanksDefaultValue; // label only (classification of the known keep-blanks finding)
        std::string ident, obs, obsNorm, instKind, argDigest;
        // ---- execute
        if (s.op == "PARSE") {
            size_t d = size_t(s.arg(1)) % corpus().size();
            bool strict = s.arg(2) != 0;
            long inst = s.arg(3);
            ctx.begin(stepNo, "PARSE", inst == 0 ? "fresh-instance" : "reused-instance");
            ParserPtr parser;
            if (inst == 0) {
                parser = Parser::create(strict);
            } else {
                auto &slot = w.parsers[inst * 2 + (strict ? 1 : 0)];
                if (slot == nullptr) {
                    slot = Parser::create(strict);
                }
                parser = slot;
            }
            auto model = parser->parseModel(corpus()[d].text);
            if (s.arg(4) != 0) {
                // the result is not kept: what the parser's issues refer to must still be there
                model = nullptr;
                checkLogger(ctx, parser, "parser", "parseModel(result discarded)", false);
                ctx.count("purity_parse_result_discarded");
                continue;
            }
            checkLogger(ctx, parser, "parser", "parseModel", model == nullptr);
            w.models[sid] = model;
            w.modelDoc[sid] = long(d);
            ident = "PARSE|" + str(strict) + "|" + str(d);
            argDigest = ident;
            obs = dumpModel(model) + dumpIssues(parser);
            obsNorm = dumpModel(model, normalised) + dumpIssues(parser);
            w.held.push_back({sid, "model", "PARSE", dumpModel(model), model, nullptr});
            ctx.count("purity_parse");
        } else if (s.op == "BUILD") {
            ctx.begin(stepNo, "BUILD", "");
            Rng mr(mixSeed(uint64_t(s.arg(1)), "purity-build", 0));
            GenOpts go;
            go.idMode = 4;
            ModelPtr model;
            if (s.arg(2) == 1) {
                // several variables that each have two resets of the same order: the validator reports one
                // issue per variable, and nothing but the model should decide in which order
                model = Model::create("reset_orders");
                auto c = Component::create("c");
                model->addComponent(c);
                long nv = 2 + long(mr.below(3));
                for (long i = 0; i < nv; ++i) {
                    auto v = Variable::create("v" + str(i));
                    v->setUnits("second");
                    c->addVariable(v);
                }
                for (long i = 0; i < nv; ++i) {
                    for (int k = 0; k < 2; ++k) {
                        auto r = Reset::create(7);
                        r->setVariable(c->variable(size_t(i)));
                        r->setTestVariable(c->variable(size_t((i + 1) % nv)));
                        r->setTestValue("<math xmlns=\"http://www.w3.org/1998/Math/MathML\" xmlns:cellml=\"http://www.cellml.org/cellml/2.0#\"><cn cellml:units=\"second\">1</cn></math>");
                        r->setResetValue("<math xmlns=\"http://www.w3.org/1998/Math/MathML\" xmlns:cellml=\"http://www.cellml.org/cellml/2.0#\"><cn cellml:units=\"second\">2</cn></math>");
                        c->addReset(r);
                    }
                }
                ctx.count("purity_build_duplicate_reset_orders");
            } else if (s.arg(2) == 2) {
                // two components with pairwise connected variables; the analysis is later asked to treat the
                // non-primary member of each pair as external: one message per pair, and nothing but the model
                // should decide in which order
                model = Model::create("external_order");
                auto a = Component::create("A"), b = Component::create("B");
                model->addComponent(a);
                model->addComponent(b);
                long nv = 2 + long(mr.below(3));
                std::string math = "<math xmlns=\"http://www.w3.org/1998/Math/MathML\" xmlns:cellml=\"http://www.cellml.org/cellml/2.0#\">";
                for (long i = 0; i < nv; ++i) {
                    auto va = Variable::create("a" + str(i)), vb = Variable::create("b" + str(i));
                    for (auto &v : {va, vb}) {
                        v->setUnits("dimensionless");
                        v->setInterfaceType("public");
                    }
                    a->addVariable(va);
                    b->addVariable(vb);
                    Variable::addEquivalence(va, vb);
                    math += "<apply><eq/><ci>a" + str(i) + "</ci><cn cellml:units=\"dimensionless\">" + str(i + 1) + "</cn></apply>";
                }
                a->setMath(math + "</math>");
                ctx.count("purity_build_external_order_model");
            } else if (s.arg(2) == 3) {
                // the same small model in two variants that differ only in what the units named "u" are:
                // whatever a service remembers under a name must not carry over from one model to the next
                bool metres = (s.arg(1) % 2) != 0;
                model = Model::create("units_named_u");
                auto u = Units::create("u");
                u->addUnit(metres ? "metre" : "second");
                model->addUnits(u);
                auto c = Component::create("c");
                model->addComponent(c);
                auto x = Variable::create("x");
                x->setUnits(u);
                c->addVariable(x);
                c->setMath("<math xmlns=\"http://www.w3.org/1998/Math/MathML\" xmlns:cellml=\"http://www.cellml.org/cellml/2.0#\"><apply><eq/><ci>x</ci><cn cellml:units=\"u\">3</cn></apply></math>");
                ctx.count("purity_build_same_units_name_model");
            } else {
                model = genModel(mr, go);
            }
            w.models[sid] = model;
            w.modelDoc[sid] = -1;
            w.held.push_back({sid, "model", "BUILD", dumpModel(model), model, nullptr});
            continue;
        } else if (s.op == "EDIT") {
            auto it = w.models.find(s.arg(1));
            if (it == w.models.end() || it->second == nullptr) {
                continue;
            }
            ctx.begin(stepNo, "EDIT", "");
            auto m = it->second;
            std::vector<ComponentPtr> comps;
            allComponents(m, comps);
            std::string id = s.arg(4) == 0 ? "" : "edited_" + str(s.arg(3)) + "_" + str(sid);
            size_t pick = size_t(s.arg(3));
            // every identifier slot of the model, by kind; the kind is chosen among the kinds the model has
            static const char *const what[9] = {"model", "encapsulation", "component", "variable", "reset", "test_value", "reset_value", "units", "unit"};
            std::vector<std::vector<std::function<void()>>> slots(9);
            slots[0].push_back([&]() { m->setId(id); });
            slots[1].push_back([&]() { m->setEncapsulationId(id); });
            for (auto &c : comps) {
                slots[2].push_back([&, c]() { c->setId(id); });
                for (size_t k = 0; k < c->variableCount(); ++k) {
                    auto v = c->variable(k);
                    slots[3].push_back([&, v]() { v->setId(id); });
                }
                for (size_t k = 0; k < c->resetCount(); ++k) {
                    auto r = c->reset(k);
                    slots[4].push_back([&, r]() { r->setId(id); });
                    slots[5].push_back([&, r]() { r->setTestValueId(id); });
                    slots[6].push_back([&, r]() { r->setResetValueId(id); });
                }
            }
            for (size_t k = 0; k < m->unitsCount(); ++k) {
                auto u = m->units(k);
                slots[7].push_back([&, u]() { u->setId(id); });
                for (size_t x = 0; x < u->unitCount(); ++x) {
                    slots[8].push_back([&, u, x]() { u->setUnitId(x, id); });
                }
            }
            std::vector<size_t> present;
            for (size_t k = 0; k < slots.size(); ++k) {
                if (!slots[k].empty()) {
                    present.push_back(k);
                }
            }
            size_t kind = present[size_t(s.arg(2)) % present.size()];
            bool done = true;
            std::vector<ComponentPtr> own; // components defined here: an imported component has no math of its own to edit
            for (auto &c : comps) {
                if (!c->isImport()) {
                    own.push_back(c);
                }
            }
            if (s.arg(5) != 0 && !own.empty()) {
                // not an identifier this time: math that is not well-formed XML
                static const char *const broken[] = {
                    "<math xmlns=\"http://www.w3.org/1998/Math/MathML\"><apply><eq/><ci>a</ci><ci>b</ci></apply>",
                    "<math xmlns=\"http://www.w3.org/1998/Math/MathML\"><apply><eq/><ci>a</ci><ci>b</ci></aply></math>",
                    "<math xmlns=\"http://www.w3.org/1998/Math/MathML\"><apply><eq/><ci>a</ci><ci>b<</ci></apply></math>",
                };
                std::string text = broken[size_t(s.arg(3)) % 3];
                std::vector<ResetPtr> resets;
                for (auto &c : own) {
                    for (size_t k = 0; k < c->resetCount(); ++k) {
                        resets.push_back(c->reset(k));
                    }
                }
                if (s.arg(5) == 2 && !resets.empty()) {
                    auto r = resets[pick % resets.size()];
                    if (pick % 2 == 0) {
                        r->setTestValue(text);
                    } else {
                        r->setResetValue(text);
                    }
                    ctx.count("purity_client_writes_ill_formed_math_into_a_reset");
                } else {
                    own[pick % own.size()]->setMath(text);
                    ctx.count("purity_client_writes_ill_formed_math_into_a_component");
                }
            } else {
                slots[kind][pick % slots[kind].size()]();
                ctx.count(std::string("purity_edit_") + what[kind] + "_id");
            }
            if (done) {
                ctx.count("purity_client_edits_an_identifier");
                for (auto &h : w.held) {
                    if (h.model == m) {
                        h.dumpAtReturn = dumpModel(m); // the client's own edit, not a rewrite by a later call
                    }
                }
            }
            continue;
        } else if (s.op == "DROP") {
            auto it = w.models.find(s.arg(1));
            if (it == w.models.end() || it->second == nullptr) {
                continue;
            }
            ctx.begin(stepNo, "DROP", "");
            auto m = it->second;
            w.models.erase(it);
            w.held.erase(std::remove_if(w.held.begin(), w.held.end(), [&](const Held &h) { return h.model == m; }), w.held.end());
            for (auto a = w.amodelSource.begin(); a != w.amodelSource.end();) {
                a = a->second == m ? w.amodelSource.erase(a) : std::next(a);
            }
            m = nullptr;
            ctx.count("purity_client_drops_a_model");
            // every long-lived service still answers coherently about its last call
            for (auto &kv : w.parsers) {
                checkLogger(ctx, kv.second, "parser", "issues after a model was dropped", false);
            }
            for (auto &kv : w.validators) {
                checkLogger(ctx, kv.second, "validator", "issues after a model was dropped", false);
            }
            for (auto &kv : w.analysers) {
                checkLogger(ctx, kv.second, "analyser", "issues after a model was dropped", false);
            }
            for (auto &kv : w.importers) {
                if (kv.second != nullptr) {
                    checkLogger(ctx, kv.second, "importer", "issues after a model was dropped", false);
                }
            }
            for (auto &kv : w.printers) {
                checkLogger(ctx, kv.second, "printer", "issues after a model was dropped", false);
            }
            for (auto &kv : w.annotators) {
                checkLogger(ctx, kv.second, "annotator", "issues after a model was dropped", false);
            }
            continue;
        } else if (s.op == "CLONE") {
            auto it = w.models.find(s.arg(1));
            if (it == w.models.end() || it->second == nullptr) {
                continue;
            }
            ctx.begin(stepNo, "CLONE", "");
            std::string before = argDump(it->second);
            auto c = it->second->clone();
            if (argDump(it->second) != before) {
                ctx.violate("C12", "input-mutated", "Model.clone", "clone() changed the model it copies");
                return;
            }
            w.models[sid] = c;
            w.modelDoc[sid] = w.modelDoc[s.arg(1)];
            w.held.push_back({sid, "model", "CLONE", dumpModel(c), c, nullptr});
            continue;
        } else if (s.op == "EQUALS") {
            auto a = w.models.find(s.arg(1)), b = w.models.find(s.arg(2));
            if (a == w.models.end() || b == w.models.end() || a->second == nullptr || b->second == nullptr) {
                continue;
            }
            ctx.begin(stepNo, "EQUALS", "");
            std::string da = argDump(a->second), db = argDump(b->second);
            bool r = a->second->equals(b->second);
            if (argDump(a->second) != da || argDump(b->second) != db) {
                ctx.violate("C12", "input-mutated", "Entity.equals", "equals() changed one of its operands");
                return;
            }
            ident = "EQUALS|" + dg(da) + "|" + dg(db);
            argDigest = ident;
            obs = obsNorm = str(r);
        } else if (s.op == "PRINT") {
            auto it = w.models.find(s.arg(1));
            if (it == w.models.end()) {
                continue;
            }
            long inst = s.arg(3);
            bool autoIds = s.arg(2) != 0;
            ctx.begin(stepNo, "PRINT", inst == 0 ? "fresh-instance" : "reused-instance");
            PrinterPtr printer = inst == 0 ? Printer::create() : (w.printers[inst] ? w.printers[inst] : (w.printers[inst] = Printer::create()));
            std::string before = argDump(it->second);
            std::string text = printer->printModel(it->second, autoIds);
            checkLogger(ctx, printer, "printer", "printModel", false);
            if (argDump(it->second) != before) {
                ctx.violate("C12", "input-mutated", "Printer.printModel", "printModel() changed the model it was given");
                return;
            }
            ident = "PRINT|" + str(autoIds) + "|" + dg(before);
            argDigest = dg(before);
            obs = text + dumpIssues(printer);
            obsNorm = normaliseWs(text) + dumpIssues(printer);
            ctx.count("purity_print");
        } else if (s.op == "VALIDATE") {
            auto it = w.models.find(s.arg(1));
            if (it == w.models.end()) {
                continue;
            }
            long inst = s.arg(2);
            ctx.begin(stepNo, "VALIDATE", inst == 0 ? "fresh-instance" : "reused-instance");
            ValidatorPtr v = inst == 0 ? Validator::create() : (w.validators[inst] ? w.validators[inst] : (w.validators[inst] = Validator::create()));
            std::string before = argDump(it->second);
            v->validateModel(it->second);
            checkLogger(ctx, v, "validator", "validateModel", false);
            if (argDump(it->second) != before) {
                ctx.violate("C12", "input-mutated", "Validator.validateModel", "validateModel() changed the model it was given");
                return;
            }
            ident = "VALIDATE|" + dg(before);
            argDigest = dg(before);
            obs = obsNorm = dumpIssues(v);
            ctx.count("purity_validate");
        } else if (s.op == "ANNOT") {
            // Annotator lookups: read-only on the model; the answer depends on the model set and nothing else
            auto it = w.models.find(s.arg(1));
            if (it == w.models.end() || it->second == nullptr) {
                continue;
            }
            long inst = s.arg(2);
            ctx.begin(stepNo, "ANNOT", inst == 0 ? "fresh-instance" : "reused-instance");
            AnnotatorPtr an = inst == 0 ? Annotator::create() : (w.annotators[inst] ? w.annotators[inst] : (w.annotators[inst] = Annotator::create()));
            std::string before = argDump(it->second);
            if (inst == 0 || an->model() != it->second) {
                an->setModel(it->second);
            } else {
                // a long-lived annotator that already works on this model is simply asked again: whatever the client has
                // edited in the meantime must be noticed without being told
                ctx.count("purity_annotator_asked_again_without_setModel");
            }
            std::ostringstream o;
            // whatever the annotator returns must be an object of the model it was given now (not of a model it was given
            // before: a reused annotator must not answer from what it remembers)
            size_t foreign = 0;
            auto belongs = [&](const AnyCellmlElementPtr &item) {
                if (item == nullptr) {
                    return true;
                }
                ParentedEntityPtr pe;
                switch (item->type()) {
                case CellmlElementType::COMPONENT:
                case CellmlElementType::COMPONENT_REF: pe = item->component(); break;
                case CellmlElementType::VARIABLE: pe = item->variable(); break;
                case CellmlElementType::UNITS: pe = item->units(); break;
                case CellmlElementType::RESET:
                case CellmlElementType::RESET_VALUE:
                case CellmlElementType::TEST_VALUE: pe = item->reset(); break;
                case CellmlElementType::UNIT: pe = item->unitsItem() != nullptr ? item->unitsItem()->units() : nullptr; break;
                case CellmlElementType::MODEL:
                case CellmlElementType::ENCAPSULATION: return item->model() == it->second;
                default: return true;
                }
                for (int hops = 0; pe != nullptr && hops < 64; ++hops) {
                    if (pe == it->second) {
                        return true;
                    }
                    pe = pe->parent();
                }
                return false;
            };
            auto lookups = [&](const AnnotatorPtr &a, std::ostringstream &out) {
                auto ids = a->ids();
                out << "ids=" << ids.size() << " count=" << a->itemCount("") << "\n";
                for (auto &id : ids) {
                    out << esc(id) << " n=" << a->itemCount(id) << " unique=" << a->isUnique(id);
                    for (auto &item : a->items(id)) {
                        out << " [" << itemString(item) << "]";
                        foreign += belongs(item) ? 0 : 1;
                    }
                    auto one = a->item(id);
                    foreign += belongs(one) ? 0 : 1;
                    out << " item=" << itemString(one) << " issues{" << dumpIssues(a) << "}\n";
                }
                out << "dups:";
                for (auto &d : a->duplicateIds()) {
                    out << " " << esc(d);
                }
                out << "\nmissing=" << itemString(a->item("no_such_id_x")) << " issues{" << dumpIssues(a) << "}\n";
            };
            lookups(an, o);
            checkLogger(ctx, an, "annotator", "item", true);
            if (inst != 0 && foreign == 0) {
                // the same questions to a new annotator: a used instance answers like a fresh one
                auto freshAnnotator = Annotator::create();
                freshAnnotator->setModel(it->second);
                std::ostringstream f;
                lookups(freshAnnotator, f);
                ctx.count("purity_used_annotator_compared_with_new_one");
                if (f.str() != o.str()) {
                    ctx.violate("C12", "used-instance-differs-from-fresh", "Annotator", "a long-lived annotator answers differently from a new one on the same model: " + firstDifference(f.str(), o.str()));
                    return;
                }
            }
            if (foreign != 0) {
                ctx.violate("C12", "answer-from-remembered-state", inst == 0 ? "Annotator,fresh-instance" : "Annotator,reused-instance", "annotator lookups after setModel(m) returned " + str(foreign) + " object(s) that do not belong to m");
                return;
            }
            if (argDump(it->second) != before) {
                ctx.violate("C12", "input-mutated", "Annotator.lookups", "annotator lookups changed the model they were given");
                return;
            }
            ident = "ANNOT|" + dg(before);
            argDigest = dg(before);
            obs = obsNorm = o.str();
            ctx.count("purity_annotator_lookups");
        } else if (s.op == "ANALYSE") {
            auto it = w.models.find(s.arg(1));
            if (it == w.models.end()) {
                continue;
            }
            long inst = s.arg(2);
            long nExt = s.arg(3);
            ctx.begin(stepNo, "ANALYSE", inst == 0 ? "fresh-instance" : "reused-instance");
            AnalyserPtr a = inst == 0 ? Analyser::create() : (w.analysers[inst] ? w.analysers[inst] : (w.analysers[inst] = Analyser::create()));
            std::string before = argDump(it->second);
            // documented state: the external variables, fully determined by this step
            a->removeAllExternalVariables();
            std::string ext;
            if (nExt > 0 && it->second != nullptr) {
                std::vector<ComponentPtr> comps;
                allComponents(it->second, comps);
                long added = 0;
                bool nonPrimary = it->second->name() == "external_order"; // mark the connected variables of component B
                for (auto &c : comps) {
                    if (nonPrimary && c->name() != "B") {
                        continue;
                    }
                    for (size_t k = 0; k < c->variableCount() && (added < nExt || nonPrimary); ++k) {
                        if (nonPrimary || (c->variable(k)->equivalentVariableCount() == 0 && c->variable(k)->initialValue().empty())) {
                            a->addExternalVariable(AnalyserExternalVariable::create(c->variable(k)));
                            ext += c->name() + "." + c->variable(k)->name() + ";";
                            ++added;
                        }
                    }
                }
            }
            a->analyseModel(it->second);
            auto am = a->model();
            checkLogger(ctx, a, "analyser", "analyseModel", analysisFailed(am));
            if (argDump(it->second) != before) {
                ctx.violate("C12", "input-mutated", "Analyser.analyseModel", "analyseModel() changed the model it was given");
                return;
            }
            w.amodels[sid] = am;
            w.amodelSource[sid] = it->second;
            ident = "ANALYSE|" + dg(before) + "|" + ext;
            argDigest = dg(before);
            obs = obsNorm = dumpAnalyserModel(am) + dumpIssues(a);
            w.held.push_back({sid, "analysermodel", "ANALYSE", dumpAnalyserModel(am), nullptr, am});
            ctx.count("purity_analyse");
            if (am != nullptr && am->isValid()) {
                ctx.count("purity_analyse_valid");
            }
        } else if (s.op == "GENERATE") {
            auto it = w.amodels.find(s.arg(1));
            if (it == w.amodels.end() || it->second == nullptr) {
                continue;
            }
            long inst = s.arg(3);
            bool python = s.arg(2) != 0;
            ctx.begin(stepNo, "GENERATE", inst == 0 ? "fresh-instance" : "reused-instance");
            GeneratorPtr g = inst == 0 ? Generator::create() : (w.generators[inst] ? w.generators[inst] : (w.generators[inst] = Generator::create()));
            std::string beforeAm = dumpAnalyserModel(it->second);
            auto src = w.amodelSource[s.arg(1)];
            std::string beforeModel = argDump(src);
            g->setProfile(GeneratorProfile::create(python ? GeneratorProfile::Profile::PYTHON : GeneratorProfile::Profile::C));
            g->setModel(it->second);
            std::string code = g->interfaceCode() + "\n====\n" + g->implementationCode();
            if (dumpAnalyserModel(it->second) != beforeAm || argDump(src) != beforeModel) {
                ctx.violate("C12", "input-mutated", "Generator", "code generation changed the analyser model or the model behind it");
                return;
            }
            ident = "GENERATE|" + str(python) + "|" + dg(beforeAm) + "|" + dg(beforeModel);
            argDigest = dg(beforeAm + beforeModel);
            obs = obsNorm = code;
            ctx.count("purity_generate");
            if (!g->implementationCode().empty()) {
                ctx.count("purity_generate_nonempty");
            }
        } else if (s.op == "RESOLVE" || s.op == "FLATTEN") {
            auto it = w.models.find(s.arg(1));
            if (it == w.models.end() || it->second == nullptr || w.modelDoc[s.arg(1)] < 0) {
                continue;
            }
            long inst = s.arg(2);
            const Doc &doc = corpus()[size_t(w.modelDoc[s.arg(1)])];
            ImporterPtr imp;
            if (inst == 0 && s.op == "RESOLVE") {
                imp = Importer::create(s.arg(3) != 0);
                w.importers[-sid] = imp;
                w.importers[1000 + s.arg(1)] = imp; // remembered as "the importer that resolved this model"
            } else if (inst == 0) {
                imp = w.importers[1000 + s.arg(1)];
                if (imp == nullptr) {
                    imp = Importer::create();
                }
            } else {
                imp = w.importers[inst] ? w.importers[inst] : (w.importers[inst] = Importer::create(true));
            }
            ctx.begin(stepNo, s.op, inst == 0 ? "fresh-instance" : "reused-instance");
            std::string lib = libraryState(imp, false);
            if (s.op == "RESOLVE") {
                std::string before = dumpModel(it->second, withLinks); // (a resolution starts by forgetting the model's links: what they led to does not matter)
                bool ok = imp->resolveImports(it->second, doc.dir);
                checkLogger(ctx, imp, "importer", "resolveImports", !ok);
                ident = "RESOLVE|" + str(imp->isStrict()) + "|" + dg(lib) + "|" + dg(before) + "|" + doc.dir;
                {
                    // repeating the call: same importer, same model, nothing in between -> same verdict and same issues
                    std::string key = str(inst) + "|" + str(s.arg(1));
                    std::string now = str(ok) + "\n" + dumpIssues(imp);
                    if (s.arg(4) != 0 && inst != 0) {
                        auto prev = w.lastResolve.find(key);
                        if (prev != w.lastResolve.end()) {
                            ctx.count("purity_resolve_repeated_at_once");
                            ctx.nontrivial = true;
                            if (prev->second != now) {
                                ctx.violate("C12", "repeated-call-different-answer", "Importer.resolveImports,same-importer", "resolveImports() repeated at once on the same importer and model answers differently: " + firstDifference(prev->second, now));
                                return;
                            }
                        }
                    }
                    w.lastResolve[key] = now;
                }
                argDigest = dg(before + lib);
                obs = str(ok) + "\n" + dumpIssues(imp) + dumpModel(it->second, withLinks) + libraryState(imp, false);
                obsNorm = str(ok) + "\n" + dumpIssues(imp) + dumpModel(it->second, withLinks) + libraryState(imp, true);
                ctx.count("purity_resolve");
            } else {
                std::string before = argDump(it->second);
                std::vector<std::string> libBefore;
                for (size_t i = 0; i < imp->libraryCount(); ++i) {
                    libBefore.push_back(dumpModel(imp->library(i), withLinks));
                }
                auto flat = imp->flattenModel(it->second);
                checkLogger(ctx, imp, "importer", "flattenModel", flat == nullptr);
                if (argDump(it->second) != before) {
                    ctx.violate("C12", "input-mutated", "Importer.flattenModel", "flattenModel() changed the model it was given");
                    return;
                }
                for (size_t i = 0; i < imp->libraryCount() && i < libBefore.size(); ++i) {
                    if (dumpModel(imp->library(i), withLinks) != libBefore[i]) {
                        ctx.violate("C12", "input-mutated", "Importer.flattenModel,library-model", "flattenModel() changed the library model '" + imp->key(i) + "'");
                        return;
                    }
                }
                ident = "FLATTEN|" + dg(lib) + "|" + dg(before);
                argDigest = dg(before + lib);
                obs = dumpModel(flat) + dumpIssues(imp);
                obsNorm = dumpModel(flat, normalised) + dumpIssues(imp);
                if (flat != nullptr) {
                    w.held.push_back({sid, "model", "FLATTEN", dumpModel(flat), flat, nullptr});
                    ctx.count("purity_flatten_model");
                }
                ctx.count("purity_flatten");
            }
        } else {
            continue;
        }
        instKind = ctx.curTags;
        std::string digest = dg(obs), norm = dg(obsNorm);
        ctx.ev(s.op + " sid=" + str(sid) + " -> " + digest);
        ctx.state(fnv(s.op + digest));
        // ---- auxiliary runs publish, the main run compares
        if (aux != 0) {
            ctx.observe((aux == 1 ? "L:" : "I:") + s.op + str(sid) + ":" + argDigest, digest + "|" + norm + "|" + str(kb));
            // an auxiliary run still applies the in-run oracle below
        }
        // The only listed finding of this engine is classified narrowly: the two answers are equal up to
        // insignificant whitespace AND libxml2's keep-blanks default differed at the two entries.
        auto classify = [&](const std::string &otherNorm, int otherKb) -> std::string {
            if (otherNorm == norm && otherKb != kb) {
                return "keep-blanks-flipped";
            }
            if (otherNorm == norm) {
                return "whitespace-only";
            }
            return "";
        };
        // Oracle 1: the same call anywhere in this run gives the same answer
        auto it = w.seen.find(ident);
        if (it == w.seen.end()) {
            w.seen[ident] = {digest, norm, obs, sid, kb, instKind};
        } else {
            ctx.count("purity_same_call_compared");
            ctx.nontrivial = true;
            if (it->second.instanceKind != instKind) {
                ctx.count("purity_fresh_vs_reused_compared");
            }
            if (it->second.digest != digest) {
                std::string cls = classify(it->second.norm, it->second.kb);
                bool known = cls == "keep-blanks-flipped";
                ctx.violate("C12", "same-call-different-answer", cls.empty() ? instKind + "-vs-" + it->second.instanceKind : cls,
                            s.op + " (step sid " + str(sid) + ") answered differently from the same call made at sid " + str(it->second.sid) + ": " + firstDifference(it->second.text, obs), known);
                if (!known) {
                    return;
                }
                ctx.count("probe_keep_blanks_flipped_between_two_parses_of_the_same_text");
            }
        }
        if (aux == 0 && ctx.expected != nullptr) {
            for (const char *tag : {"L:", "I:"}) {
                auto e = ctx.expected->find(std::string(tag) + s.op + str(sid) + ":" + argDigest);
                if (e == ctx.expected->end()) {
                    continue;
                }
                ctx.nontrivial = true;
                ctx.count(tag[0] == 'L' ? "purity_layout_twin_compared" : "purity_isolation_compared");
                std::string od = e->second.substr(0, 16);
                std::string on = e->second.substr(17, 16);
                int okb = atoi(e->second.c_str() + 34);
                if (od != digest) {
                    std::string cls = classify(on, okb);
                    bool known = cls == "keep-blanks-flipped";
                    if (tag[0] == 'L') {
                        ctx.violate("C12", "layout-dependent-answer", cls, s.op + " (sid " + str(sid) + ") answers differently when the same plan runs under another heap layout", false);
                        return;
                    }
                    ctx.violate("C12", "history-dependent-answer", cls.empty() ? instKind : cls, s.op + " (sid " + str(sid) + ") answers differently from the same step executed in isolation (only its dependency slice, fresh process)", known);
                    if (!known) {
                        return;
                    }
                    ctx.count("probe_keep_blanks_flipped_between_two_parses_of_the_same_text");
                }
            }
        }
    }
    // Oracle 3: results still held by their clients were not rewritten by later calls
    ctx.begin(int(plan.steps.size()), "END", "");
    for (auto &h : w.held) {
        std::string now = h.kind == "model" ? dumpModel(h.model) : dumpAnalyserModel(h.amodel);
        ctx.count("purity_held_results_rechecked");
        if (now != h.dumpAtReturn) {
            ctx.violate("C12", "held-result-rewritten", h.producedBy + "," + h.kind, "the " + h.kind + " returned by " + h.producedBy + " (sid " + str(h.sid) + ") reads differently at the end of the run: " + firstDifference(h.dumpAtReturn, now));
            return;
        }
    }
}

std::vector<Plan> simplify(const Plan &p)
{
    std::vector<Plan> out;
    if (p.c("probes", 0) > 0) {
        Plan q = p;
        q.cfg["probes"] = 0;
        out.push_back(q);
    }
    if (p.c("layoutaux", 1) != 0) {
        Plan q = p;
        q.cfg["layoutaux"] = 0;
        out.push_back(q);
    }
    // fresh instances instead of reused ones
    for (size_t i = 0; i < p.steps.size(); ++i) {
        const Step &s = p.steps[i];
        size_t slot = s.op == "PARSE" || s.op == "PRINT" || s.op == "GENERATE" ? 3 : (s.op == "VALIDATE" || s.op == "ANALYSE" || s.op == "RESOLVE" || s.op == "FLATTEN" || s.op == "ANNOT" ? 2 : 0);
        if (slot != 0 && s.arg(slot) != 0) {
            Plan q = p;
            q.steps[i].a[slot] = 0;
            out.push_back(q);
        }
    }
    return out;
}

} // namespace

void registerPurityEngine()
{
    Engine e;
    e.name = "purity";
    e.flavour = "layout";
    e.generate = generate;
    e.execute = execute;
    e.simplify = simplify;
    e.auxiliary = auxiliary;
    e.timeoutS = 60;
    e.firstShrinkableArg = 1;
    e.crashProperty = "C12";
    registerEngine(e);
}
