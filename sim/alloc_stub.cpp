// asan flavour: the sanitizer owns the allocator; address-dependent checks do not run here.
#include "alloc.h"

namespace simalloc {
bool active() { return false; }
void beginRun(int, uint64_t) {}
bool setPlantZone(uintptr_t, size_t) { return false; }
void plant(size_t, uintptr_t) {}
bool plantPending() { return false; }
uintptr_t runRegionBase() { return 0; }
uint64_t allocationCount() { return 0; }
void failAllocation(uint64_t) {}
bool allocationFailureFired() { return false; }
} // namespace simalloc
