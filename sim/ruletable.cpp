// Every value of Issue::ReferenceRule and CellmlElementType pushed through the metadata accessors.
// Issues cannot be constructed through the public API, so this one translation unit reads the
// library's private issue header (no change to the library, same object layout).
#include <any>
#include <exception>
#include <map>
#include <memory>
#include <sstream>
#include <string>
#include <vector>

#include "kernel.h"

#define private public
#define protected public
#include <libcellml/issue.h>
#include <libcellml/types.h>
#include <libcellml/enums.h>
#include "issue_p.h"
#undef private
#undef protected

#include "monitor.h"

using namespace libcellml;

namespace sim {

void checkRuleTable(Ctx &ctx)
{
    int last = int(Issue::ReferenceRule::UNSPECIFIED);
    for (int r = 0; r <= last; ++r) {
        auto rule = Issue::ReferenceRule(r);
        auto issue = Issue::IssueImpl::create();
        issue->mPimpl->setReferenceRule(rule);
        ctx.count("c15_rules_checked");
        try {
            std::string heading = issue->referenceHeading();
            std::string url = issue->url();
            if (url.empty() && rule != Issue::ReferenceRule::UNDEFINED) {
                ctx.violate("C15", "rule-without-url", "rule" + str(r), "reference rule value " + str(r) + " has an empty URL");
                return;
            }
            ctx.ev("rule " + str(r) + " " + heading + " " + url);
        } catch (const std::exception &e) {
            ctx.violate("C15", "rule-metadata-threw", "rule" + str(r) + (r == last ? "(UNSPECIFIED)" : ""), "referenceHeading()/url() threw for reference rule value " + str(r) + ": " + e.what());
            return;
        }
    }
    for (int t = 0; t <= int(CellmlElementType::VARIABLE); ++t) {
        ctx.count("c15_types_checked");
        std::string s = cellmlElementTypeAsString(CellmlElementType(t));
        if (s.empty()) {
            ctx.violate("C15", "type-without-name", "type" + str(t), "element type value " + str(t) + " has no string form");
            return;
        }
        ctx.ev("type " + str(t) + " " + s);
    }
}

} // namespace sim
