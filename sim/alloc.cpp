// See alloc.h.  Linked only into the layout flavour.
#include "alloc.h"

#include <cstdio>
#include <cstdlib>
#include <cstring>
#include <new>
#include <sys/mman.h>
#include <unistd.h>

#ifndef MAP_FIXED_NOREPLACE
#    define MAP_FIXED_NOREPLACE 0x100000
#endif

namespace {

const uintptr_t ARENA_BASE = 0x200000000000ULL;
const size_t BOOT_SIZE = 64u << 20;
const size_t RUN_SIZE = 448u << 20;
const size_t HEADER = 16;
const size_t MAX_CLASS = 1024; // bytes; larger blocks are bumped and never reused
const size_t NCLASS = MAX_CLASS / 16 + 1;
const size_t BLOCK_SLOTS = 32;
const size_t LARGE_FLAG = size_t(1) << 62;

struct Region
{
    uintptr_t base = 0, end = 0;
    uintptr_t lo = 0, hi = 0; // bump pointers (lo grows up, hi grows down)
    int policy = simalloc::BUMP;
    void *freeList[NCLASS] = {};
    void *largeFree[40] = {};
    uintptr_t slots[NCLASS][BLOCK_SLOTS] = {};
    unsigned slotCount[NCLASS] = {};
    void reset(uintptr_t b, size_t len, int pol)
    {
        base = lo = b;
        end = hi = b + len;
        policy = pol;
        memset(freeList, 0, sizeof freeList);
        memset(largeFree, 0, sizeof largeFree);
        memset(slotCount, 0, sizeof slotCount);
    }
};

struct State
{
    bool mapped = false;
    bool inRun = false;
    uint64_t rng = 1;
    Region boot, run;
    Region *cur = nullptr;
    size_t plantSize = 0;
    uintptr_t plantAddr = 0;
    uintptr_t plantBase = 0;
    size_t plantLen = 0;
    uint64_t count = 0;
};

State g;

[[noreturn]] void die(const char *msg)
{
    (void)!write(2, msg, strlen(msg));
    (void)!write(2, "\n", 1);
    _exit(86);
}

void ensureMapped()
{
    if (g.mapped) {
        return;
    }
    void *p = mmap(reinterpret_cast<void *>(ARENA_BASE), BOOT_SIZE + RUN_SIZE, PROT_READ | PROT_WRITE,
                   MAP_PRIVATE | MAP_ANONYMOUS | MAP_NORESERVE | MAP_FIXED_NOREPLACE, -1, 0);
    if (p != reinterpret_cast<void *>(ARENA_BASE)) {
        die("simalloc: cannot map the arena at its fixed address");
    }
    g.mapped = true;
    g.boot.reset(ARENA_BASE, BOOT_SIZE, simalloc::BUMP);
    g.run.reset(ARENA_BASE + BOOT_SIZE, RUN_SIZE, simalloc::BUMP);
    g.cur = &g.boot;
}

uint64_t nextRand()
{
    uint64_t z = (g.rng += 0x9e3779b97f4a7c15ULL);
    z = (z ^ (z >> 30)) * 0xbf58476d1ce4e5b9ULL;
    z = (z ^ (z >> 27)) * 0x94d049bb133111ebULL;
    return z ^ (z >> 31);
}

inline size_t &headerOf(void *user)
{
    return *reinterpret_cast<size_t *>(reinterpret_cast<uintptr_t>(user) - HEADER);
}

uintptr_t carve(Region &r, size_t total, bool down)
{
    if (r.hi - r.lo < total + 4096) {
        die("simalloc: region exhausted");
    }
    if (down) {
        r.hi -= total;
        return r.hi;
    }
    uintptr_t p = r.lo;
    r.lo += total;
    return p;
}

void *allocate(size_t size)
{
    ensureMapped();
    ++g.count;
    size_t rounded = (size + 15) & ~size_t(15);
    if (rounded == 0) {
        rounded = 16;
    }
    if (g.plantSize != 0 && size == g.plantSize) {
        uintptr_t a = g.plantAddr;
        g.plantSize = 0;
        headerOf(reinterpret_cast<void *>(a)) = size_t(-1); // planted: never recycled
        return reinterpret_cast<void *>(a);
    }
    Region &r = *g.cur;
    size_t total = HEADER + rounded;
    if (rounded > MAX_CLASS) {
        // large blocks: power-of-two bins, most-recently-freed reuse
        size_t bin = 11;
        while ((size_t(1) << bin) < rounded) {
            ++bin;
        }
        if (bin >= 40) {
            die("simalloc: allocation too large");
        }
        if (r.policy != simalloc::BUMP_NOREUSE && r.largeFree[bin] != nullptr) {
            void *p = r.largeFree[bin];
            r.largeFree[bin] = *reinterpret_cast<void **>(p);
            headerOf(p) = LARGE_FLAG | bin;
            return p;
        }
        uintptr_t p = carve(r, HEADER + (size_t(1) << bin), r.policy == simalloc::REVERSE) + HEADER;
        headerOf(reinterpret_cast<void *>(p)) = LARGE_FLAG | bin;
        return reinterpret_cast<void *>(p);
    }
    size_t cls = rounded / 16;
    if (r.policy == simalloc::SHUFFLE) {
        if (r.slotCount[cls] == 0) {
            if (r.freeList[cls] != nullptr && (nextRand() & 1) != 0) {
                void *p = r.freeList[cls];
                r.freeList[cls] = *reinterpret_cast<void **>(p);
                headerOf(p) = cls;
                return p;
            }
            uintptr_t block = carve(r, total * BLOCK_SLOTS, false);
            for (size_t i = 0; i < BLOCK_SLOTS; ++i) {
                r.slots[cls][i] = block + i * total + HEADER;
            }
            r.slotCount[cls] = BLOCK_SLOTS;
        }
        unsigned k = unsigned(nextRand() % r.slotCount[cls]);
        uintptr_t p = r.slots[cls][k];
        r.slots[cls][k] = r.slots[cls][--r.slotCount[cls]];
        headerOf(reinterpret_cast<void *>(p)) = cls;
        return reinterpret_cast<void *>(p);
    }
    if (r.policy != simalloc::BUMP_NOREUSE && r.freeList[cls] != nullptr) {
        void *p = r.freeList[cls];
        r.freeList[cls] = *reinterpret_cast<void **>(p);
        headerOf(p) = cls;
        return p;
    }
    uintptr_t p = carve(r, total, r.policy == simalloc::REVERSE) + HEADER;
    headerOf(reinterpret_cast<void *>(p)) = cls;
    return reinterpret_cast<void *>(p);
}

void release(void *p)
{
    if (p == nullptr) {
        return;
    }
    uintptr_t a = reinterpret_cast<uintptr_t>(p);
    bool inArena = a >= ARENA_BASE && a < ARENA_BASE + BOOT_SIZE + RUN_SIZE;
    bool inPlant = g.plantLen != 0 && a >= g.plantBase && a < g.plantBase + g.plantLen;
    if (!inArena && !inPlant) {
        die("simalloc: delete of a pointer that operator new did not return");
    }
    size_t cls = headerOf(p);
    if (cls == size_t(-1)) {
        return; // planted and over-aligned blocks are not recycled
    }
    Region &r = (a < ARENA_BASE + BOOT_SIZE) ? g.boot : g.run;
    if (&r == &g.boot && g.inRun) {
        return; // a child never recycles the zygote's blocks
    }
    if ((cls & LARGE_FLAG) != 0 && (cls & ~LARGE_FLAG) < 40) {
        size_t bin = cls & ~LARGE_FLAG;
        headerOf(p) = size_t(-1) - 1;
        *reinterpret_cast<void **>(p) = r.largeFree[bin];
        r.largeFree[bin] = p;
        return;
    }
    if (cls >= NCLASS) {
        die("simalloc: corrupted block header (double delete?)");
    }
    headerOf(p) = size_t(-1) - 1; // freed marker
    *reinterpret_cast<void **>(p) = r.freeList[cls];
    r.freeList[cls] = p;
}

void *allocateAligned(size_t size, size_t align)
{
    if (align <= 16) {
        return allocate(size);
    }
    // over-allocate as a large (never recycled) block and align inside it
    void *raw = allocate(size + align + MAX_CLASS + 16);
    headerOf(raw) = size_t(-1);
    uintptr_t a = (reinterpret_cast<uintptr_t>(raw) + align - 1) & ~(uintptr_t(align) - 1);
    if (a != reinterpret_cast<uintptr_t>(raw)) {
        if (a - reinterpret_cast<uintptr_t>(raw) < HEADER) {
            a += align;
        }
        headerOf(reinterpret_cast<void *>(a)) = size_t(-1);
    }
    return reinterpret_cast<void *>(a);
}

} // namespace

namespace simalloc {

bool active()
{
    return true;
}

void beginRun(int policy, uint64_t seed)
{
    ensureMapped();
    g.inRun = true;
    g.rng = seed * 0x9e3779b97f4a7c15ULL + 12345;
    g.run.reset(ARENA_BASE + BOOT_SIZE, RUN_SIZE, policy);
    g.cur = &g.run;
    g.count = 0;
}

bool setPlantZone(uintptr_t base, size_t size)
{
    void *p = mmap(reinterpret_cast<void *>(base), size, PROT_READ | PROT_WRITE,
                   MAP_PRIVATE | MAP_ANONYMOUS | MAP_NORESERVE | MAP_FIXED_NOREPLACE, -1, 0);
    if (p != reinterpret_cast<void *>(base)) {
        if (p != MAP_FAILED) {
            munmap(p, size);
        }
        return false;
    }
    g.plantBase = base;
    g.plantLen = size;
    return true;
}

void plant(size_t size, uintptr_t addr)
{
    if (addr < g.plantBase + HEADER || addr + size > g.plantBase + g.plantLen) {
        die("simalloc: plant address outside the plant zone");
    }
    g.plantSize = size;
    g.plantAddr = addr;
}

bool plantPending()
{
    return g.plantSize != 0;
}

uintptr_t runRegionBase()
{
    return ARENA_BASE + BOOT_SIZE;
}

uint64_t allocationCount()
{
    return g.count;
}

} // namespace simalloc

static uint64_t gFailCountdown = 0;
static bool gFailFired = false;

namespace simalloc {
void failAllocation(uint64_t nth)
{
    gFailCountdown = nth;
    gFailFired = false;
}
bool allocationFailureFired()
{
    return gFailFired;
}
} // namespace simalloc

static inline void maybeFail()
{
    if (gFailCountdown != 0 && --gFailCountdown == 0) {
        gFailFired = true;
        throw std::bad_alloc();
    }
}

void *operator new(size_t n)
{
    maybeFail();
    return allocate(n);
}
void *operator new[](size_t n)
{
    maybeFail();
    return allocate(n);
}
void *operator new(size_t n, const std::nothrow_t &) noexcept
{
    return allocate(n);
}
void *operator new[](size_t n, const std::nothrow_t &) noexcept
{
    return allocate(n);
}
void *operator new(size_t n, std::align_val_t a)
{
    return allocateAligned(n, size_t(a));
}
void *operator new[](size_t n, std::align_val_t a)
{
    return allocateAligned(n, size_t(a));
}
void operator delete(void *p) noexcept
{
    release(p);
}
void operator delete[](void *p) noexcept
{
    release(p);
}
void operator delete(void *p, size_t) noexcept
{
    release(p);
}
void operator delete[](void *p, size_t) noexcept
{
    release(p);
}
void operator delete(void *p, const std::nothrow_t &) noexcept
{
    release(p);
}
void operator delete[](void *p, const std::nothrow_t &) noexcept
{
    release(p);
}
void operator delete(void *p, std::align_val_t) noexcept
{
    release(p);
}
void operator delete[](void *p, std::align_val_t) noexcept
{
    release(p);
}
void operator delete(void *p, size_t, std::align_val_t) noexcept
{
    release(p);
}
void operator delete[](void *p, size_t, std::align_val_t) noexcept
{
    release(p);
}
