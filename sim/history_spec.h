// Engine `history`, part 3: the per-operation specification on snapshots.  For each call the set of permitted
// after-snapshots (and return values) is computed from the before-snapshot with abstract unlink / link / replace steps.
#pragma once

#include "history_svc.h"

namespace hist {

enum Form { ADD, REM_IDX, REM_NAME, REM_PTR, REM_ALL, TAKE_IDX, TAKE_NAME, GET_IDX, GET_NAME, HAS_NAME, HAS_PTR, REP_IDX, REP_NAME, REP_PTR, NFORM };

inline bool formExists(Fam fam, Form f)
{
    if (fam == F_COMP || fam == F_UNITS) {
        return true;
    }
    if (f == REP_IDX || f == REP_NAME || f == REP_PTR) {
        return false;
    }
    if (fam == F_RESET) {
        return f == ADD || f == REM_IDX || f == REM_PTR || f == REM_ALL || f == TAKE_IDX || f == GET_IDX || f == HAS_PTR;
    }
    return true;
}

inline std::string formName(Fam fam, Form f)
{
    static const char *const cls[NFAM] = {"ComponentEntity", "Component", "Component", "Model"};
    static const char *const noun[NFAM] = {"Component", "Variable", "Reset", "Units"};
    static const char *const getter[NFAM] = {"component", "variable", "reset", "units"};
    static const char *const has[NFAM] = {"containsComponent", "hasVariable", "hasReset", "hasUnits"};
    static const char *const all[NFAM] = {"removeAllComponents", "removeAllVariables", "removeAllResets", "removeAllUnits"};
    std::string c = std::string(cls[fam]) + ".", n = noun[fam];
    switch (f) {
    case ADD: return c + "add" + n;
    case REM_IDX: return c + "remove" + n + "#index";
    case REM_NAME: return c + "remove" + n + "#name";
    case REM_PTR: return c + "remove" + n + "#ptr";
    case REM_ALL: return c + all[fam];
    case TAKE_IDX: return c + "take" + n + "#index";
    case TAKE_NAME: return c + "take" + n + "#name";
    case GET_IDX: return c + getter[fam] + "#index";
    case GET_NAME: return c + getter[fam] + "#name";
    case HAS_NAME: return c + has[fam] + "#name";
    case HAS_PTR: return c + has[fam] + "#ptr";
    case REP_IDX: return c + "replace" + n + "#index";
    case REP_NAME: return c + "replace" + n + "#name";
    default: return c + "replace" + n + "#ptr";
    }
}

inline unsigned formMask(Form f, int slot)
{
    if (slot == 1) {
        return (f == REP_IDX || f == REP_NAME || f == REP_PTR) ? mEntity : 0;
    }
    switch (f) {
    case ADD:
    case REM_PTR:
    case HAS_PTR:
    case REP_PTR: return mEntity;
    case REM_IDX:
    case TAKE_IDX:
    case GET_IDX:
    case REP_IDX: return mIndex;
    case REM_ALL: return 0;
    default: return mU;
    }
}

inline bool formIsPtr(Form f) { return f == REM_PTR || f == HAS_PTR || f == REP_PTR; }
inline bool formIsName(Form f) { return f == REM_NAME || f == TAKE_NAME || f == GET_NAME || f == HAS_NAME || f == REP_NAME; }
inline bool formIsIndex(Form f) { return f == REM_IDX || f == TAKE_IDX || f == GET_IDX || f == REP_IDX; }
inline bool formIsQuery(Form f) { return f == GET_IDX || f == GET_NAME || f == HAS_NAME || f == HAS_PTR; }
inline bool formIsReplace(Form f) { return f == REP_IDX || f == REP_NAME || f == REP_PTR; }
inline bool formSearches(Fam fam, Form f) { return fam == F_COMP && (formIsPtr(f) || formIsName(f)); }

struct Outcome
{
    Snap s;
    std::string ret; // "true", "false", "null", "h<id>", "" (void), "*" (any)
};

inline void unlink(Snap &s, int x)
{
    int p = s[size_t(x)].parent;
    if (p >= 0) {
        for (int f = 0; f < NFAM; ++f) {
            auto &l = s[size_t(p)].kids[f];
            auto it = std::find(l.begin(), l.end(), x);
            if (it != l.end()) {
                l.erase(it);
                break;
            }
        }
    }
    s[size_t(x)].parent = NONE;
}

inline bool isAncestorOrSelf(const Snap &s, int a, int d)
{
    size_t hops = 0;
    while (d >= 0 && hops++ <= s.size()) {
        if (d == a) {
            return true;
        }
        d = s[size_t(d)].parent;
    }
    return false;
}

// Children of `t` in family `fam`; with `search`, those of all components below `t` as well (pre-order).
inline std::vector<int> scopeOf(const Snap &s, int t, Fam fam, bool search)
{
    std::vector<int> out;
    std::set<int> seen;
    std::vector<int> todo = {t};
    while (!todo.empty()) {
        int c = todo.back();
        todo.pop_back();
        if (c < 0 || !seen.insert(c).second) {
            continue;
        }
        for (int k : s[size_t(c)].kids[fam]) {
            if (k >= 0) {
                out.push_back(k);
            }
        }
        if (search) {
            const auto &cs = s[size_t(c)].kids[F_COMP];
            for (auto it = cs.rbegin(); it != cs.rend(); ++it) {
                todo.push_back(*it);
            }
        }
    }
    return out;
}

struct ContainerCall
{
    Fam fam = F_COMP;
    Form form = ADD;
    int t = NONE, x = NONE, y = NONE;
    size_t index = 0;
    std::string name;
    bool search = false;
    std::vector<int> alike; // in-scope children that are structurally equal to x (x itself excluded)
};

inline std::vector<Outcome> specContainer(const Snap &b, const ContainerCall &c)
{
    std::vector<Outcome> out;
    auto refused = [&](const std::string &ret) { out.push_back(Outcome {b, ret}); };
    const auto &kids = b[size_t(c.t)].kids[c.fam];
    if (c.form == REM_ALL) {
        Snap s = b;
        for (int k : kids) {
            if (k >= 0) {
                s[size_t(k)].parent = NONE;
            }
        }
        s[size_t(c.t)].kids[c.fam].clear();
        out.push_back(Outcome {s, ""});
        return out;
    }
    if (c.form == ADD) {
        if (c.x < 0 || (c.fam == F_COMP && isAncestorOrSelf(b, c.x, c.t))) {
            refused("false");
            return out;
        }
        Snap s = b;
        unlink(s, c.x);
        s[size_t(c.t)].kids[c.fam].push_back(c.x);
        s[size_t(c.x)].parent = c.t;
        out.push_back(Outcome {s, "true"});
        return out;
    }
    // which children may be meant
    std::vector<int> cands;
    bool mayRefuse = false;
    auto scope = scopeOf(b, c.t, c.fam, c.search);
    if (formIsIndex(c.form)) {
        if (c.index < kids.size() && kids[c.index] >= 0) {
            cands.push_back(kids[c.index]);
        }
    } else if (formIsName(c.form)) {
        for (int k : scope) {
            if (b[size_t(k)].name == c.name) {
                cands.push_back(k);
            }
        }
    } else if (c.x >= 0) {
        if (std::find(scope.begin(), scope.end(), c.x) != scope.end()) {
            cands.push_back(c.x);
        } else {
            cands = c.alike;
            mayRefuse = true;
        }
    }
    bool returnsPtr = c.form == TAKE_IDX || c.form == TAKE_NAME || c.form == GET_IDX || c.form == GET_NAME;
    std::string no = returnsPtr ? "null" : "false";
    if (cands.empty() || mayRefuse) {
        refused(no);
    }
    for (int k : cands) {
        if (formIsQuery(c.form)) {
            out.push_back(Outcome {b, returnsPtr ? hid(k) : "true"});
            continue;
        }
        if (formIsReplace(c.form)) {
            int holder = b[size_t(k)].parent;
            if (c.y < 0 || holder < 0 || (c.fam == F_COMP && isAncestorOrSelf(b, c.y, holder))) {
                if (out.empty() || out[0].ret != "false") {
                    out.insert(out.begin(), Outcome {b, "false"});
                }
                continue;
            }
            if (c.y == k) {
                out.push_back(Outcome {b, "*"});
                continue;
            }
            if (b[size_t(c.y)].parent == holder && (out.empty() || out[0].ret != "false")) {
                // the replacement is already a child of that container: refusing is permitted (so is the move below)
                out.insert(out.begin(), Outcome {b, "false"});
            }
            Snap s = b;
            unlink(s, c.y);
            auto &l = s[size_t(holder)].kids[c.fam];
            auto it = std::find(l.begin(), l.end(), k);
            if (it != l.end()) {
                *it = c.y;
            }
            s[size_t(c.y)].parent = holder;
            s[size_t(k)].parent = NONE;
            out.push_back(Outcome {s, "true"});
            continue;
        }
        Snap s = b;
        unlink(s, k);
        out.push_back(Outcome {s, returnsPtr ? hid(k) : "true"});
    }
    return out;
}

// Model::clean(): removes components without name, id, math, import and content (bottom-up) and units without
// name, id, import and unit children.
inline Snap specClean(const Snap &b, int model)
{
    Snap s = b;
    std::function<bool(int, int)> emptyAfter = [&](int k, int depth) -> bool {
        if (depth > 64) {
            return false;
        }
        auto children = s[size_t(k)].kids[F_COMP];
        for (int ch : children) {
            if (ch >= 0 && emptyAfter(ch, depth + 1)) {
                unlink(s, ch);
            }
        }
        return s[size_t(k)].kids[F_COMP].empty() && s[size_t(k)].kids[F_VAR].empty() && s[size_t(k)].kids[F_RESET].empty() && b[size_t(k)].emptyAttrs;
    };
    auto top = s[size_t(model)].kids[F_COMP];
    for (int k : top) {
        if (k >= 0 && emptyAfter(k, 0)) {
            unlink(s, k);
        }
    }
    auto units = s[size_t(model)].kids[F_UNITS];
    for (int u : units) {
        if (u >= 0 && b[size_t(u)].emptyAttrs) {
            unlink(s, u);
        }
    }
    return s;
}

// (container, child) pairs of a snapshot
inline std::set<std::pair<int, int>> listings(const Snap &s)
{
    std::set<std::pair<int, int>> out;
    for (size_t i = 0; i < s.size(); ++i) {
        if (s[i].alive) {
            for (int f = 0; f < NFAM; ++f) {
                for (int k : s[i].kids[f]) {
                    out.insert({int(i), k});
                }
            }
        }
    }
    return out;
}

} // namespace hist
