// cellsim kernel: PRNG, plans, event log, violation sink, engine registry.
// One seed decides everything: every choice of a run is drawn from one Rng
// seeded from (VERIF_SEED, engine, run index).  Logging never draws from it.
#pragma once

#include <cstdint>
#include <cstdio>
#include <functional>
#include <map>
#include <memory>
#include <set>
#include <sstream>
#include <string>
#include <vector>

namespace sim {

// ---------------------------------------------------------------- PRNG

struct Rng
{
    uint64_t s[4];
    static uint64_t splitmix(uint64_t &x)
    {
        uint64_t z = (x += 0x9e3779b97f4a7c15ULL);
        z = (z ^ (z >> 30)) * 0xbf58476d1ce4e5b9ULL;
        z = (z ^ (z >> 27)) * 0x94d049bb133111ebULL;
        return z ^ (z >> 31);
    }
    explicit Rng(uint64_t seed = 1)
    {
        uint64_t x = seed;
        for (auto &v : s) {
            v = splitmix(x);
        }
    }
    static uint64_t rotl(uint64_t x, int k) { return (x << k) | (x >> (64 - k)); }
    uint64_t next()
    {
        uint64_t r = rotl(s[1] * 5, 7) * 9, t = s[1] << 17;
        s[2] ^= s[0];
        s[3] ^= s[1];
        s[1] ^= s[2];
        s[0] ^= s[3];
        s[2] ^= t;
        s[3] = rotl(s[3], 45);
        return r;
    }
    // uniform in [0, n)
    uint64_t below(uint64_t n) { return n == 0 ? 0 : next() % n; }
    long range(long lo, long hi) { return lo + long(below(uint64_t(hi - lo + 1))); }
    bool chance(unsigned num, unsigned den) { return below(den) < num; }
    template<class T>
    const T &pick(const std::vector<T> &v) { return v[below(v.size())]; }
};

uint64_t mixSeed(uint64_t seed, const std::string &engine, uint64_t run);
uint64_t fnv(const std::string &s, uint64_t h = 0xcbf29ce484222325ULL);
std::string hex64(uint64_t v);

// ---------------------------------------------------------------- plans

struct Step
{
    int task = 0;
    std::string op;
    std::vector<long> a; // integer arguments; handles are interpreted modulo the live handles
    long arg(size_t i, long dflt = 0) const { return i < a.size() ? a[i] : dflt; }
};

struct Plan
{
    std::string engine;
    std::map<std::string, long> cfg;
    std::vector<Step> steps;
    long c(const std::string &k, long dflt = 0) const
    {
        auto it = cfg.find(k);
        return it == cfg.end() ? dflt : it->second;
    }
    std::string text() const;
    static bool parse(const std::string &text, Plan &out, std::string &err);
};

// ---------------------------------------------------------------- run context (child side)

struct Violation
{
    std::string property; // e.g. C07
    std::string cls; // violation class, stable under minimisation, e.g. "verdict-mismatch"
    std::string sig; // full signature <class>@<op>:<tags>
    std::string detail;
    int step = -1;
};

struct Ctx
{
    int fd = 1; // protocol pipe
    bool trace = false; // print the event log to stderr as it is produced
    uint64_t fp = 0xcbf29ce484222325ULL;
    uint64_t events = 0;
    int curStep = -1;
    std::string curOp;
    std::string curTags;
    std::map<std::string, long> counters;
    std::set<uint64_t> states; // distinct abstract states seen in this run
    bool nontrivial = false;
    bool stopOnViolation = true;
    std::vector<Violation> violations;

    void ev(const std::string &line); // append to the event log (hash only, unless trace)
    void count(const std::string &k, long n = 1) { counters[k] += n; }
    void state(uint64_t h) { states.insert(h); }
    void begin(int step, const std::string &op, const std::string &tags); // BEGIN marker (crash attribution)
    void tags(const std::string &tags); // refine the tags of the current step (re-sends the marker)
    // Record a violation.  Ends the run (the process exits after flushing), except when the signature is a
    // listed known finding and the caller says the run can safely continue past it: then a known-finding
    // hit is recorded and the call returns.
    void violate(const std::string &property, const std::string &cls, const std::string &tags, const std::string &detail, bool continuable = false);
    const std::set<std::string> *knownSigs = nullptr;
    // Observations: an auxiliary run (see Engine::auxiliary) publishes what it saw under a key; the main run
    // finds them in `expected` and compares with what it sees itself.
    void observe(const std::string &key, const std::string &digest);
    const std::map<std::string, std::string> *expected = nullptr;
    void finish(); // write the final record
    void send(const std::string &line);
};

// ---------------------------------------------------------------- engines

struct Opts
{
    std::string tier = "quick";
    std::map<std::string, long> force; // cfg overrides from the command line (--cfg k=v)
    long f(const std::string &k, long dflt) const
    {
        auto it = force.find(k);
        return it == force.end() ? dflt : it->second;
    }
};

struct Engine
{
    std::string name;
    std::string flavour; // "asan", "layout" or "any"
    // Generate the plan of one run.  Must not call libcellml/libxml2 (the zygote stays pristine).
    std::function<Plan(Rng &, const Opts &, uint64_t runIndex)> generate;
    // Execute a plan in the child.
    std::function<void(const Plan &, Ctx &)> execute;
    // Optional engine-specific simplifications tried by the shrinker after ddmin:
    // returns candidate plans that are "simpler" than p.
    std::function<std::vector<Plan>(const Plan &)> simplify;
    // Optional: number of deterministic (non-random) runs walked before the seeded ones (sweeps).
    std::function<uint64_t(const Opts &)> sweepSize;
    // Optional: plans executed in fresh children BEFORE the main run (isolation slices, the same plan under another
    // allocator policy, ...).  Their observations are handed to the main run through Ctx::expected.
    std::function<std::vector<Plan>(const Plan &)> auxiliary;
    size_t firstShrinkableArg = 0; // arguments before this index are identities, not values: the shrinker leaves them alone
    double timeoutS = 20;
    std::string crashProperty = "C09"; // property under which a crash / sanitizer report / timeout of the child is filed
};

void registerEngine(const Engine &e);
const Engine *findEngine(const std::string &name);

std::string jsonEscape(const std::string &s);

template<class T>
std::string str(const T &v)
{
    std::ostringstream o;
    o << v;
    return o.str();
}

} // namespace sim
