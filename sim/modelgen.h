// API-built random models (no XML involved) shared by the annot and history engines.
#pragma once

#include <string>
#include <vector>

#include <libcellml/module/libcellml>

#include "kernel.h"

namespace sim {

struct GenOpts
{
    long maxComps = 5;
    long maxVars = 3;
    bool resets = true;
    bool imports = true;
    bool math = true;
    bool equivalences = true;
    bool lookAlikes = false; // structurally identical siblings
    bool consistentConnections = true; // every map_variables pair of one pair of components carries the same connection id (as in a document)
    long idMode = 0; // 0 none, 1 unique everywhere, 2 some duplicated, 3 auto-id shaped (b4da55...), 4 mixed
};

libcellml::ModelPtr genModel(Rng &rng, const GenOpts &o);

// The connection id already carried by a map_variables pair between the owners of a and b ("" if none).
std::string connectionIdBetween(const libcellml::VariablePtr &a, const libcellml::VariablePtr &b);

// Would making a and b equivalent put two variables of one component into the same equivalence class
// (a shape no CellML document can express)?
bool wouldJoinSiblings(const libcellml::VariablePtr &a, const libcellml::VariablePtr &b);

// All components of a model in pre-order.
void allComponents(const libcellml::ComponentEntityPtr &e, std::vector<libcellml::ComponentPtr> &out);

} // namespace sim
