// Engine `history`, part 2: bad-argument injection on the services (annotator, importer, analyser and its external
// variables, analyser-model queries, validator, printer, generator).  Every entry makes one kind of call with good
// arguments except one slot, which holds the bad value.  Good and bad values are local to the step: a small good model G
// and a kit of bad entities built according to the badness kind.
#pragma once

#include "dump.h"
#include "history_world.h"
#include "monitor.h"

namespace hist {

enum Bad { B_GOOD, B_NULL, B_PARENTLESS, B_ORPHAN, B_IDX_COUNT, B_IDX_MAX, B_NAME, B_OTHER_MODEL, NBAD };
static const char *const BAD_TAG[NBAD] = {"", "null", "parentless", "owner-destroyed", "index=count", "index=max", "unknown-name", "other-model"};
const unsigned mN = 1u << B_NULL, mP = 1u << B_PARENTLESS, mO = 1u << B_ORPHAN, mC = 1u << B_IDX_COUNT, mX = 1u << B_IDX_MAX, mU = 1u << B_NAME, mM = 1u << B_OTHER_MODEL;
const unsigned mEntity = mN | mP | mO | mM, mIndex = mC | mX;

using T = CellmlElementType;

// Services that live as long as the run: they remember entities of the universe (external variables, the annotator's model
// and id index, the importer's library, the analyser model and its cache) while the history goes on changing and destroying them.
struct Live
{
    AnalyserPtr analyser;
    AnalyserModelPtr am;
    GeneratorPtr generator;
    AnnotatorPtr annotator;
    ImporterPtr importer;
    ValidatorPtr validator;
    AnalyserExternalVariablePtr ev; // an external variable with dependencies from the universe
    VariablePtr lastVariable; // held strongly on purpose only while it is the "other" variable of the next call
    std::weak_ptr<Variable> previous;
};

struct Svc
{
    Ctx &ctx;
    Live *live = nullptr;
    int bad = B_NULL;
    int slot = 0;
    long variant = 0;
    bool dropped = false; // annotator entries: the annotator's model has been destroyed
    EntityPtr recv; // entries that act on a handle of the universe
    // good values
    ModelPtr G;
    ComponentPtr gc, ginner, gci;
    VariablePtr ga, gb, gcv;
    UnitsPtr gu;
    ResetPtr gr;
    ImportSourcePtr gi;
    // bad values (null for B_NULL and for the index / name kinds)
    ModelPtr M2, bm;
    ComponentPtr bc, bowner;
    VariablePtr bv, bv2;
    UnitsPtr bu;
    ResetPtr br;
    ImportSourcePtr bi;
    std::string failure;

    explicit Svc(Ctx &c)
        : ctx(c)
    {
    }
    size_t badIndex(size_t count) const { return bad == B_IDX_MAX ? size_t(-1) : count; }
    bool isIndex() const { return bad == B_IDX_COUNT || bad == B_IDX_MAX; }
    void expect(bool ok, const std::string &what)
    {
        if (!ok && failure.empty()) {
            failure = what;
        }
    }
};

inline void fillModel(const ModelPtr &m, const std::string &p, ComponentPtr &main, ComponentPtr &inner, ComponentPtr &imported, VariablePtr &a, VariablePtr &b, VariablePtr &c,
                      UnitsPtr &u, ResetPtr &r, ImportSourcePtr &is)
{
    m->setId(p + "id_model");
    u = Units::create("mV");
    u->addUnit("volt", "milli", 1.0, 1.0, p + "id_unit");
    u->setId(p + "id_units");
    m->addUnits(u);
    main = Component::create("main");
    main->setId(p + "id_main");
    m->addComponent(main);
    a = Variable::create("a");
    a->setUnits(u);
    a->setInterfaceType("public_and_private");
    a->setId(p + "id_a");
    main->addVariable(a);
    b = Variable::create("b");
    b->setUnits("second");
    b->setId(p + "id_b");
    main->addVariable(b);
    inner = Component::create("inner");
    main->addComponent(inner);
    c = Variable::create("c");
    c->setUnits(u);
    c->setInterfaceType("public");
    inner->addVariable(c);
    Variable::addEquivalence(a, c, p + "id_map", p + "id_conn");
    r = Reset::create(1);
    r->setVariable(a);
    r->setTestVariable(b);
    r->setId(p + "id_reset");
    main->addReset(r);
    is = ImportSource::create();
    is->setUrl(p + "lib.cellml");
    is->setId(p + "id_imp");
    imported = Component::create("imported");
    imported->setImportSource(is);
    imported->setImportReference("ref");
    m->addComponent(imported);
}

inline void buildKit(Svc &s)
{
    s.G = Model::create("good");
    fillModel(s.G, "g", s.gc, s.ginner, s.gci, s.ga, s.gb, s.gcv, s.gu, s.gr, s.gi);
    if (s.bad == B_PARENTLESS) {
        s.bm = Model::create("stray_model");
        s.bc = Component::create("stray_c");
        s.bv = Variable::create("stray_v");
        s.bv->setUnits("second");
        s.bv2 = Variable::create("stray_w");
        s.bv2->setUnits("second");
        s.bu = Units::create("stray_u");
        s.bu->addUnit("second", "", 2.0, 1.0, "");
        s.br = Reset::create(3);
        s.bi = ImportSource::create();
        s.bi->setUrl("stray.cellml");
    } else if (s.bad == B_ORPHAN || s.bad == B_OTHER_MODEL) {
        auto m = Model::create("other");
        ComponentPtr main, inner, imported;
        VariablePtr a, b, c;
        fillModel(m, "o", main, inner, imported, a, b, c, s.bu, s.br, s.bi);
        s.bv = a;
        s.bv2 = c;
        s.bc = inner;
        if (s.bad == B_OTHER_MODEL) {
            s.M2 = m;
            s.bm = m;
            s.bowner = main;
        }
        // B_ORPHAN: m, main and imported die here; a, c, inner, the units, the reset and the import source stay
    }
    if (s.dropped) { // good arguments: only the annotator is broken
        s.bm = s.G;
        s.bc = s.gc;
        s.bv = s.ga;
        s.bv2 = s.gcv;
        s.bu = s.gu;
        s.br = s.gr;
        s.bi = s.gi;
    }
}

inline std::string kitDump(const Svc &s)
{
    std::string d = "G:" + dumpModel(s.G);
    if (s.M2 != nullptr) {
        d += "M2:" + dumpModel(s.M2);
    }
    if (s.bm != nullptr && s.bm != s.G && s.bm != s.M2) {
        d += "bm:" + dumpModel(s.bm);
    }
    if (s.M2 == nullptr && !s.dropped) {
        d += "bc:" + dumpComponent(s.bc) + "bv:" + dumpVariable(s.bv) + "bv2:" + dumpVariable(s.bv2) + "bu:" + dumpUnits(s.bu) + "br:" + dumpReset(s.br);
    }
    if (s.bi != nullptr) {
        d += "bi:" + s.bi->url() + "|" + s.bi->id() + "|" + (s.bi->hasModel() ? "m" : "-");
    }
    return d + "gi:" + s.gi->url() + "|" + s.gi->id();
}

struct SvcEntry
{
    std::string name;
    unsigned mask[2] = {0, 0}; // badness kinds that make sense per slot
    std::function<void(Svc &)> run;
    bool annot = false; // has an @model-dropped twin
    int recvKind = -1; // >= 0: acts on a universe handle of that kind
    int allow = 0; // recv entries: 1 = variables' units links and attributes may change, 2 = variables' attributes may change
};

inline AnnotatorPtr mkAnnotator(Svc &s)
{
    auto a = Annotator::create();
    if (s.dropped) {
        auto t = Model::create("doomed");
        ComponentPtr c1, c2, c3;
        VariablePtr v1, v2, v3;
        UnitsPtr u;
        ResetPtr r;
        ImportSourcePtr is;
        fillModel(t, "g", c1, c2, c3, v1, v2, v3, u, r, is);
        a->setModel(t);
    } else {
        a->setModel(s.G);
    }
    return a;
}

inline bool emptyItem(const AnyCellmlElementPtr &i)
{
    return i == nullptr || i->type() == T::UNDEFINED;
}

// A small model that analyses as a valid ODE model.
inline AnalyserModelPtr validAnalysis(Svc &s, VariablePtr &x, VariablePtr &t, AnalyserPtr an = nullptr)
{
    auto m = Model::create("ode");
    auto c = Component::create("c");
    m->addComponent(c);
    t = Variable::create("t");
    t->setUnits("second");
    x = Variable::create("x");
    x->setUnits("second");
    x->setInitialValue(0.0);
    c->addVariable(t);
    c->addVariable(x);
    c->setMath("<math xmlns=\"http://www.w3.org/1998/Math/MathML\" xmlns:cellml=\"http://www.cellml.org/cellml/2.0#\"><apply><eq/><apply><diff/><bvar><ci>t</ci></bvar><ci>x</ci></apply>"
               "<cn cellml:units=\"dimensionless\">1</cn></apply></math>");
    if (an == nullptr) {
        an = Analyser::create();
    }
    an->analyseModel(m);
    auto am = an->model();
    checkLogger(s.ctx, an, "analyser", "analyseModel(valid)", am == nullptr || !am->isValid());
    if (am == nullptr || !am->isValid()) {
        s.ctx.count("svc_analysis_not_valid");
        return nullptr;
    }
    return am;
}

inline std::vector<SvcEntry> buildSvcTable()
{
    std::vector<SvcEntry> t;
    auto add = [&](const std::string &name, unsigned m0, unsigned m1, std::function<void(Svc &)> fn, bool annot = false) {
        SvcEntry e;
        e.name = name;
        e.mask[0] = m0;
        e.mask[1] = m1;
        e.run = std::move(fn);
        e.annot = annot;
        t.push_back(e);
    };
    auto chk = [](Svc &s, const LoggerPtr &l, const char *svc, const std::string &what, bool failed) { checkLogger(s.ctx, l, svc, what, failed); };

    // ------------------------------------------------ Annotator
    add("Annotator.setModel", mN, 0, [=](Svc &s) {
        auto a = mkAnnotator(s);
        a->setModel(nullptr);
        chk(s, a, "annotator", "setModel(null)", false);
        s.expect(!a->hasModel() && a->model() == nullptr, "setModel(null) left the annotator with a model");
        s.expect(a->ids().empty() && a->duplicateIds().empty() && a->itemCount("gid_main") == 0 && emptyItem(a->item("gid_main")),
                 "after setModel(null) the annotator still answers from the model it had: ids() has " + str(a->ids().size()) + " entries, itemCount('gid_main') = " + str(a->itemCount("gid_main")));
        bool r = a->assignAllIds();
        chk(s, a, "annotator", "assignAllIds() without model", true);
        s.expect(!r, "assignAllIds() returned true without a model");
    });
    add("Annotator.assignAllIds#model", mN, 0, [=](Svc &s) {
        auto a = Annotator::create();
        ModelPtr m;
        bool r = a->assignAllIds(m);
        s.expect(!r, "assignAllIds(null model) returned true");
        chk(s, a, "annotator", "assignAllIds(null model)", true);
    });
    add("Annotator.clearAllIds#model", mN, 0, [=](Svc &s) {
        auto a = mkAnnotator(s);
        ModelPtr m;
        auto before = a->model();
        a->clearAllIds(m);
        chk(s, a, "annotator", "clearAllIds(null model)", false);
        s.expect(a->issueCount() > 0, "clearAllIds(null model) raised no issue");
        s.expect(s.dropped || a->model() == before, "clearAllIds(null model) made the annotator forget the model it works with");
    });
    add("Annotator.assignId#item", mN | mM, 0, [=](Svc &s) {
        auto a = mkAnnotator(s);
        AnyCellmlElementPtr item;
        if (s.bad == B_OTHER_MODEL) {
            auto a2 = Annotator::create();
            a2->setModel(s.M2);
            item = a2->item("oid_a");
            if (emptyItem(item)) {
                s.ctx.count("svc_setup_failed");
                return;
            }
        } else if (s.dropped) {
            auto a2 = Annotator::create();
            a2->setModel(s.G);
            item = a2->item("gid_a");
        }
        std::string id = a->assignId(item);
        chk(s, a, "annotator", "assignId(item)", id.empty());
        s.expect(id.empty(), "assignId(item) returned '" + id + "'");
    }, true);
    add("Annotator.assignId#model", mN | mP | mM, 0, [=](Svc &s) {
        auto a = mkAnnotator(s);
        std::string id = a->assignId(s.bm);
        chk(s, a, "annotator", "assignId(model)", id.empty());
        s.expect(id.empty(), "assignId(model) returned '" + id + "'");
        id = a->assignId(s.bm, T::ENCAPSULATION);
        chk(s, a, "annotator", "assignId(model, ENCAPSULATION)", id.empty());
        s.expect(id.empty(), "assignId(model, ENCAPSULATION) returned '" + id + "'");
    }, true);
    add("Annotator.assignId#component", mEntity, 0, [=](Svc &s) {
        auto a = mkAnnotator(s);
        std::string id = s.variant % 2 == 0 ? a->assignId(s.bc) : a->assignId(s.bc, T::COMPONENT_REF);
        chk(s, a, "annotator", "assignId(component)", id.empty());
        s.expect(id.empty(), "assignId(component) returned '" + id + "'");
    }, true);
    add("Annotator.assignId#importSource", mEntity, 0, [=](Svc &s) {
        auto a = mkAnnotator(s);
        std::string id = a->assignId(s.bi);
        chk(s, a, "annotator", "assignId(importSource)", id.empty());
        s.expect(id.empty(), "assignId(importSource) returned '" + id + "'");
    }, true);
    add("Annotator.assignId#reset", mEntity, 0, [=](Svc &s) {
        auto a = mkAnnotator(s);
        T ty = s.variant % 3 == 0 ? T::RESET : s.variant % 3 == 1 ? T::TEST_VALUE : T::RESET_VALUE;
        std::string id = a->assignId(s.br, ty);
        chk(s, a, "annotator", "assignId(reset)", id.empty());
        s.expect(id.empty(), "assignId(reset) returned '" + id + "'");
    }, true);
    add("Annotator.assignId#units", mEntity, 0, [=](Svc &s) {
        auto a = mkAnnotator(s);
        std::string id = a->assignId(s.bu);
        chk(s, a, "annotator", "assignId(units)", id.empty());
        s.expect(id.empty(), "assignId(units) returned '" + id + "'");
    }, true);
    add("Annotator.assignId#unitsItem", mEntity | mIndex, 0, [=](Svc &s) {
        auto a = mkAnnotator(s);
        UnitsItemPtr ui;
        if (s.isIndex()) {
            ui = UnitsItem::create(s.gu, s.badIndex(s.gu->unitCount()));
        } else if (s.bu != nullptr) {
            ui = UnitsItem::create(s.bu, 0);
        }
        std::string id = a->assignId(ui);
        chk(s, a, "annotator", "assignId(unitsItem)", id.empty());
        s.expect(id.empty(), "assignId(unitsItem) returned '" + id + "'");
    }, true);
    add("Annotator.assignId#unitsIndex", mEntity | mIndex, 0, [=](Svc &s) {
        auto a = mkAnnotator(s);
        std::string id = s.isIndex() ? a->assignId(s.gu, s.badIndex(s.gu->unitCount())) : a->assignId(s.bu, 0);
        chk(s, a, "annotator", "assignId(units, index)", id.empty());
        s.expect(id.empty(), "assignId(units, index) returned '" + id + "'");
    }, true);
    add("Annotator.assignId#variable", mEntity, 0, [=](Svc &s) {
        auto a = mkAnnotator(s);
        std::string id = a->assignId(s.bv);
        chk(s, a, "annotator", "assignId(variable)", id.empty());
        s.expect(id.empty(), "assignId(variable) returned '" + id + "'");
    }, true);
    add("Annotator.assignId#variablePair", mEntity, mP | mO | mM, [=](Svc &s) {
        auto a = mkAnnotator(s);
        VariablePairPtr p;
        if (s.bad != B_NULL || s.dropped) {
            p = s.dropped ? VariablePair::create(s.ga, s.gcv) : s.slot == 0 ? VariablePair::create(s.bv, s.ga) : VariablePair::create(s.ga, s.bv);
        }
        std::string id = s.variant % 2 == 0 ? a->assignId(p) : a->assignId(p, T::CONNECTION);
        chk(s, a, "annotator", "assignId(variablePair)", id.empty());
        s.expect(id.empty(), "assignId(variablePair) returned '" + id + "'");
    }, true);
    add("Annotator.assignId#variables", mEntity, mEntity, [=](Svc &s) {
        auto a = mkAnnotator(s);
        VariablePtr v1 = s.dropped ? s.ga : s.slot == 0 ? s.bv : s.ga, v2 = s.dropped ? s.gcv : s.slot == 0 ? s.ga : s.bv;
        std::string id = s.variant % 2 == 0 ? a->assignId(v1, v2) : a->assignId(v1, v2, T::CONNECTION);
        chk(s, a, "annotator", "assignId(variable, variable)", id.empty());
        s.expect(id.empty(), "assignId(variable, variable) returned '" + id + "'");
    }, true);
    add("Annotator.item", mU | mIndex, 0, [=](Svc &s) {
        auto a = mkAnnotator(s);
        AnyCellmlElementPtr it;
        if (s.isIndex()) {
            it = a->item("gid_a", s.badIndex(a->itemCount("gid_a")));
        } else {
            it = a->item(s.dropped ? "gid_a" : "no_such_id");
        }
        chk(s, a, "annotator", "item(bad)", emptyItem(it));
        s.expect(emptyItem(it), "item() returned an item");
    }, true);
    add("Annotator.lookup", mU, 0, [=](Svc &s) {
        auto a = mkAnnotator(s);
        std::string id = s.dropped ? "gid_a" : "no_such_id";
        s.expect(a->items(id).empty(), "items() is not empty");
        chk(s, a, "annotator", "items(bad)", false);
        s.expect(a->itemCount(id) == 0, "itemCount() is not 0");
        s.expect(!a->isUnique(id), "isUnique() is true");
        chk(s, a, "annotator", "isUnique(bad)", false);
        if (s.dropped) {
            s.expect(a->ids().empty() && a->duplicateIds().empty(), "ids() is not empty");
        }
    }, true);
    add("Annotator.typedLookup", mU | mIndex, 0, [=](Svc &s) {
        auto a = mkAnnotator(s);
        bool u = s.bad == B_NAME && !s.dropped;
        size_t i = s.isIndex() ? s.badIndex(1) : 0;
        auto id = [&](const char *good) { return std::string(u ? "no_such_id" : good); };
        bool byIndex = s.isIndex();
        s.expect((byIndex ? a->component(id("gid_main"), i) : a->component(id("gid_main"))) == nullptr, "component() returned an object");
        s.expect((byIndex ? a->variable(id("gid_a"), i) : a->variable(id("gid_a"))) == nullptr, "variable() returned an object");
        s.expect((byIndex ? a->reset(id("gid_reset"), i) : a->reset(id("gid_reset"))) == nullptr, "reset() returned an object");
        s.expect((byIndex ? a->units(id("gid_units"), i) : a->units(id("gid_units"))) == nullptr, "units() returned an object");
        s.expect((byIndex ? a->unitsItem(id("gid_unit"), i) : a->unitsItem(id("gid_unit"))) == nullptr, "unitsItem() returned an object");
        s.expect((byIndex ? a->importSource(id("gid_imp"), i) : a->importSource(id("gid_imp"))) == nullptr, "importSource() returned an object");
        s.expect((byIndex ? a->model(id("gid_model"), i) : a->model(id("gid_model"))) == nullptr, "model() returned an object");
        s.expect((byIndex ? a->mapVariables(id("gid_map"), i) : a->mapVariables(id("gid_map"))) == nullptr, "mapVariables() returned an object");
        s.expect((byIndex ? a->connection(id("gid_conn"), i) : a->connection(id("gid_conn"))) == nullptr, "connection() returned an object");
        s.expect((byIndex ? a->encapsulation(id("gid_model"), i) : a->encapsulation(id("gid_model"))) == nullptr, "encapsulation() returned an object");
        s.expect((byIndex ? a->componentEncapsulation(id("gid_main"), i) : a->componentEncapsulation(id("gid_main"))) == nullptr, "componentEncapsulation() returned an object");
        s.expect((byIndex ? a->testValue(id("gid_reset"), i) : a->testValue(id("gid_reset"))) == nullptr, "testValue() returned an object");
        s.expect((byIndex ? a->resetValue(id("gid_reset"), i) : a->resetValue(id("gid_reset"))) == nullptr, "resetValue() returned an object");
        chk(s, a, "annotator", "typed lookups(bad)", false);
    }, true);

    // ------------------------------------------------ Importer
    add("Importer.resolveImports", mN, 0, [=](Svc &s) {
        auto imp = Importer::create();
        ModelPtr m;
        bool r = imp->resolveImports(m, "");
        chk(s, imp, "importer", "resolveImports(null)", true);
        s.expect(!r, "resolveImports(null) returned true");
    });
    add("Importer.flattenModel", mN, 0, [=](Svc &s) {
        auto imp = Importer::create();
        auto r = imp->flattenModel(nullptr);
        chk(s, imp, "importer", "flattenModel(null)", true);
        s.expect(r == nullptr, "flattenModel(null) returned a model");
    });
    add("Importer.clearImports", mN, 0, [=](Svc &s) {
        auto imp = Importer::create();
        ModelPtr m;
        imp->clearImports(m);
        chk(s, imp, "importer", "clearImports(null)", false);
    });
    add("Importer.addModel", mN, 0, [=](Svc &s) {
        auto imp = Importer::create();
        bool r = imp->addModel(nullptr, "key");
        chk(s, imp, "importer", "addModel(null)", false);
        s.expect(!r && imp->libraryCount() == 0, "addModel(null, key) returned " + str(r) + ", libraryCount() = " + str(imp->libraryCount()));
    });
    add("Importer.replaceModel", mN, 0, [=](Svc &s) {
        auto imp = Importer::create();
        imp->addModel(s.G, "key");
        bool r = imp->replaceModel(nullptr, "key");
        chk(s, imp, "importer", "replaceModel(null)", false);
        s.expect(!r && imp->library("key") == s.G, "replaceModel(null, key) returned " + str(r) + (imp->library("key") == s.G ? "" : " and removed the model held under the key"));
    });
    add("Importer.library#index", mIndex, 0, [=](Svc &s) {
        auto imp = Importer::create();
        imp->addModel(s.G, "key");
        s.expect(imp->library(s.badIndex(1)) == nullptr, "library(bad index) returned a model");
        chk(s, imp, "importer", "library(bad index)", false);
    });
    add("Importer.library#key", mU, 0, [=](Svc &s) {
        auto imp = Importer::create();
        imp->addModel(s.G, "key");
        s.expect(imp->library("no_such_key") == nullptr, "library(unknown key) returned a model");
        s.expect(imp->libraryCount() == 1, "library(unknown key) changed the library");
        chk(s, imp, "importer", "library(unknown key)", false);
    });
    add("Importer.key", mIndex, 0, [=](Svc &s) {
        auto imp = Importer::create();
        imp->addModel(s.G, "key");
        s.expect(imp->key(s.badIndex(1)).empty(), "key(bad index) returned a key");
        chk(s, imp, "importer", "key(bad index)", false);
    });
    add("Importer.addImportSource", mN, 0, [=](Svc &s) {
        auto imp = Importer::create();
        bool r = imp->addImportSource(nullptr);
        s.expect(!r && imp->importSourceCount() == 0, "addImportSource(null) was accepted");
        chk(s, imp, "importer", "addImportSource(null)", false);
    });
    add("Importer.removeImportSource#index", mIndex, 0, [=](Svc &s) {
        auto imp = Importer::create();
        imp->addImportSource(s.gi);
        bool r = imp->removeImportSource(s.badIndex(1));
        s.expect(!r && imp->importSourceCount() == 1, "removeImportSource(bad index) removed something");
        chk(s, imp, "importer", "removeImportSource(bad index)", false);
    });
    add("Importer.removeImportSource#ptr", mN | mP, 0, [=](Svc &s) {
        auto imp = Importer::create();
        imp->addImportSource(s.gi);
        bool r = imp->removeImportSource(s.bi);
        s.expect(!r && imp->importSourceCount() == 1, "removeImportSource(bad import source) removed something");
        chk(s, imp, "importer", "removeImportSource(bad)", false);
    });
    add("Importer.hasImportSource", mN | mP, 0, [=](Svc &s) {
        auto imp = Importer::create();
        imp->addImportSource(s.gi);
        s.expect(!imp->hasImportSource(s.bi), "hasImportSource(bad import source) is true");
        chk(s, imp, "importer", "hasImportSource(bad)", false);
    });
    add("Importer.importSource", mIndex, 0, [=](Svc &s) {
        auto imp = Importer::create();
        imp->addImportSource(s.gi);
        s.expect(imp->importSource(s.badIndex(1)) == nullptr, "importSource(bad index) returned an object");
        chk(s, imp, "importer", "importSource(bad index)", false);
    });

    // ------------------------------------------------ Analyser
    add("Analyser.analyseModel", mN, 0, [=](Svc &s) {
        auto an = Analyser::create();
        an->analyseModel(nullptr);
        chk(s, an, "analyser", "analyseModel(null)", true);
        s.expect(an->model() == nullptr || !an->model()->isValid(), "analyseModel(null) produced a valid model");
    });
    // (a variable of another model is not a bad argument here: the analyser has no model of its own yet)
    add("Analyser.addExternalVariable", mN, mN | mP | mO, [=](Svc &s) {
        auto an = Analyser::create();
        size_t base = 0;
        AnalyserExternalVariablePtr ev;
        if (s.slot == 1) {
            // (bv2, where there is one, sits in a component whose own parent is gone: it has a parent but no model)
            ev = AnalyserExternalVariable::create(s.variant % 2 != 0 && s.bv2 != nullptr ? s.bv2 : s.bv);
        }
        bool r = an->addExternalVariable(ev);
        chk(s, an, "analyser", "addExternalVariable(bad)", false);
        s.expect(!r && an->externalVariableCount() == base, "addExternalVariable(bad) returned " + str(r) + ", externalVariableCount() = " + str(an->externalVariableCount()));
    });
    // lookups: op 0 remove, 1 contains, 2 get
    for (int op = 0; op < 3; ++op) {
        std::string base = op == 0 ? "Analyser.removeExternalVariable" : op == 1 ? "Analyser.containsExternalVariable" : "Analyser.externalVariable";
        if (op != 1) {
            add(base + "#index", mIndex, 0, [=](Svc &s) {
                auto an = Analyser::create();
                an->addExternalVariable(AnalyserExternalVariable::create(s.ga));
                bool hit = op == 0 ? an->removeExternalVariable(s.badIndex(1)) : an->externalVariable(s.badIndex(1)) != nullptr;
                chk(s, an, "analyser", base + "(bad index)", false);
                s.expect(!hit && an->externalVariableCount() == 1, base + "(bad index) found something");
            });
        }
        if (op != 2) {
            add(base + "#ptr", mN | mP, 0, [=](Svc &s) {
                auto an = Analyser::create();
                an->addExternalVariable(AnalyserExternalVariable::create(s.ga));
                AnalyserExternalVariablePtr ev = s.bad == B_NULL ? nullptr : AnalyserExternalVariable::create(s.ga); // never added
                bool hit = op == 0 ? an->removeExternalVariable(ev) : an->containsExternalVariable(ev);
                chk(s, an, "analyser", base + "(bad external variable)", false);
                s.expect(!hit && an->externalVariableCount() == 1, base + "(bad external variable) found something");
            });
        }
        // slot 1: an external variable on a parentless variable is registered as well (the library accepts it)
        add(base + "#names", mN | mU | mM, mN | mU | mM, [=](Svc &s) {
            auto an = Analyser::create();
            an->addExternalVariable(AnalyserExternalVariable::create(s.ga));
            size_t n = 1;
            if (s.slot == 1) {
                auto stray = Variable::create("a");
                n += an->addExternalVariable(AnalyserExternalVariable::create(stray)) ? 1 : 0;
            }
            ModelPtr m = s.bad == B_NULL ? nullptr : s.bad == B_OTHER_MODEL ? s.M2 : s.G;
            std::string cn = s.bad == B_NAME && s.variant % 2 == 0 ? "no_such_component" : "main", vn = s.bad == B_NAME && s.variant % 2 != 0 ? "no_such_variable" : "a";
            bool hit = op == 0 ? an->removeExternalVariable(m, cn, vn) : op == 1 ? an->containsExternalVariable(m, cn, vn) : an->externalVariable(m, cn, vn) != nullptr;
            chk(s, an, "analyser", base + "(bad names)", false);
            s.expect(!hit && an->externalVariableCount() == n, base + "(bad model / names) found something");
        });
    }

    // ------------------------------------------------ AnalyserExternalVariable
    add("AnalyserExternalVariable.create", mN, 0, [=](Svc &s) {
        auto ev = AnalyserExternalVariable::create(nullptr);
        if (ev != nullptr) {
            s.expect(ev->variable() == nullptr, "create(null) has a variable");
            s.expect(!ev->addDependency(s.ga) && ev->dependencyCount() == 0, "an external variable without variable accepted a dependency");
        }
    });
    add("AnalyserExternalVariable.addDependency", mEntity, mN | mP | mO, [=](Svc &s) {
        auto ev = AnalyserExternalVariable::create(s.slot == 0 ? s.ga : s.bv);
        bool r = ev->addDependency(s.slot == 0 ? s.bv : (s.bad == B_NULL ? s.gb : s.bv2));
        s.expect(!r && ev->dependencyCount() == 0, "addDependency(bad) returned " + str(r) + ", dependencyCount() = " + str(ev->dependencyCount()));
    });
    for (int op = 0; op < 3; ++op) {
        std::string base = op == 0 ? "AnalyserExternalVariable.removeDependency" : op == 1 ? "AnalyserExternalVariable.containsDependency" : "AnalyserExternalVariable.dependency";
        if (op != 1) {
            add(base + "#index", mIndex, 0, [=](Svc &s) {
                auto ev = AnalyserExternalVariable::create(s.ga);
                ev->addDependency(s.gb);
                bool hit = op == 0 ? ev->removeDependency(s.badIndex(ev->dependencyCount())) : ev->dependency(s.badIndex(ev->dependencyCount())) != nullptr;
                s.expect(!hit && ev->dependencyCount() == 1, base + "(bad index) found something");
            });
        }
        if (op != 2) {
            add(base + "#ptr", mEntity, 0, [=](Svc &s) {
                auto ev = AnalyserExternalVariable::create(s.ga);
                ev->addDependency(s.gb);
                bool hit = op == 0 ? ev->removeDependency(s.bv) : ev->containsDependency(s.bv);
                s.expect(!hit && ev->dependencyCount() == 1, base + "(bad variable) found something");
            });
        }
        // slot 1: external variable and dependency are both parentless (the library accepts that pair)
        add(base + "#names", mN | mU | mM, mN | mU | mM, [=](Svc &s) {
            auto ev = AnalyserExternalVariable::create(s.slot == 0 ? s.ga : Variable::create("a"));
            ev->addDependency(s.slot == 0 ? s.gb : Variable::create("b"));
            size_t n = ev->dependencyCount();
            ModelPtr m = s.bad == B_NULL ? nullptr : s.bad == B_OTHER_MODEL ? s.M2 : s.G;
            std::string cn = s.bad == B_NAME && s.variant % 2 == 0 ? "no_such_component" : "main", vn = s.bad == B_NAME && s.variant % 2 != 0 ? "no_such_variable" : "b";
            bool hit = op == 0 ? ev->removeDependency(m, cn, vn) : op == 1 ? ev->containsDependency(m, cn, vn) : ev->dependency(m, cn, vn) != nullptr;
            s.expect(!hit && ev->dependencyCount() == n, base + "(bad model / names) found something");
        });
    }

    // ------------------------------------------------ AnalyserModel
    add("AnalyserModel.areEquivalentVariables", mN | mP, mN | mP, [=](Svc &s) {
        VariablePtr x, tv;
        auto am = validAnalysis(s, x, tv);
        if (am == nullptr) {
            return;
        }
        bool r = s.variant % 3 == 2 && s.bad == B_NULL ? am->areEquivalentVariables(nullptr, nullptr) : s.slot == 0 ? am->areEquivalentVariables(s.bv, x) : am->areEquivalentVariables(x, s.bv);
        s.expect(!r || (s.variant % 3 == 2 && s.bad == B_NULL), "areEquivalentVariables(bad) is true");
    });
    for (int op = 0; op < 3; ++op) {
        std::string name = op == 0 ? "AnalyserModel.variable" : op == 1 ? "AnalyserModel.state" : "AnalyserModel.equation";
        add(name, mIndex, 0, [=](Svc &s) {
            VariablePtr x, tv;
            auto am = validAnalysis(s, x, tv);
            if (am == nullptr) {
                return;
            }
            bool hit = op == 0 ? am->variable(s.badIndex(am->variableCount())) != nullptr : op == 1 ? am->state(s.badIndex(am->stateCount())) != nullptr : am->equation(s.badIndex(am->equationCount())) != nullptr;
            s.expect(!hit, name + "(bad index) returned an object");
        });
    }

    // ------------------------------------------------ Validator, Printer, Generator
    add("Validator.validateModel", mN, 0, [=](Svc &s) {
        auto v = Validator::create();
        v->validateModel(nullptr);
        chk(s, v, "validator", "validateModel(null)", false);
        s.expect(v->issueCount() > 0, "validateModel(null) raised no issue");
    });
    add("Printer.printModel", mN, 0, [=](Svc &s) {
        auto p = Printer::create();
        std::string text = p->printModel(nullptr);
        chk(s, p, "printer", "printModel(null)", false);
        s.expect(text.empty(), "printModel(null) returned text");
    });
    add("Generator.setModel", mN, 0, [=](Svc &s) {
        auto g = Generator::create();
        g->setModel(nullptr);
        s.expect(g->model() == nullptr, "setModel(null) left a model");
        s.expect(g->implementationCode().empty() && g->interfaceCode().empty(), "code was generated without a model");
    });
    add("Generator.setProfile", mN, 0, [=](Svc &s) {
        auto g = Generator::create();
        g->setProfile(nullptr);
        s.expect(g->implementationCode().empty() && g->interfaceCode().empty(), "code was generated without a model");
    });

    // ------------------------------------------------ calls on handles of the universe, whatever their history
    auto recv = [&](const std::string &name, int kind, int allow, std::function<void(Svc &)> fn) {
        add(name, mN, 0, std::move(fn));
        t.back().recvKind = kind;
        t.back().allow = allow;
    };
    recv("Printer.printModel#handle", K_MODEL, 0, [=](Svc &s) {
        auto p = Printer::create();
        p->printModel(std::dynamic_pointer_cast<Model>(s.recv));
        chk(s, p, "printer", "printModel(handle)", false);
    });
    recv("Model.linkUnits", K_MODEL, 1, [=](Svc &s) { std::dynamic_pointer_cast<Model>(s.recv)->linkUnits(); });
    recv("Model.fixVariableInterfaces", K_MODEL, 2, [=](Svc &s) { std::dynamic_pointer_cast<Model>(s.recv)->fixVariableInterfaces(); });
    recv("Model.queries", K_MODEL, 0, [=](Svc &s) {
        auto m = std::dynamic_pointer_cast<Model>(s.recv);
        m->isDefined();
        m->hasUnresolvedImports();
        m->hasImports();
        m->hasUnlinkedUnits();
        m->importRequirements();
    });
    recv("Component.queries", K_COMP, 0, [=](Svc &s) {
        auto c = std::dynamic_pointer_cast<Component>(s.recv);
        c->isDefined();
        c->requiresImports();
        c->isResolved();
    });
    recv("Units.queries", K_UNITS, 0, [=](Svc &s) {
        auto u = std::dynamic_pointer_cast<Units>(s.recv);
        u->isDefined();
        u->requiresImports();
        u->isBaseUnit();
        u->isResolved();
    });

    // ------------------------------------------------ long-lived services fed with handles of the universe
    auto nameOf = [](const ComponentPtr &c) { return c != nullptr ? c->name() : std::string("no_such_component"); };
    recv("Live.Analyser.addExternalVariable", K_VAR, 0, [=](Svc &s) {
        auto &l = *s.live;
        if (l.analyser == nullptr) {
            l.analyser = Analyser::create();
        }
        auto v = std::dynamic_pointer_cast<Variable>(s.recv);
        auto ev = AnalyserExternalVariable::create(v);
        auto other = l.previous.lock();
        if (other != nullptr && s.variant % 2 == 0) {
            ev->addDependency(other);
        }
        size_t before = l.analyser->externalVariableCount();
        bool r = l.analyser->addExternalVariable(ev);
        s.expect(l.analyser->externalVariableCount() == before + (r ? 1 : 0), "addExternalVariable() returned " + str(r) + " but the count went from " + str(before) + " to " + str(l.analyser->externalVariableCount()));
        bool inModel = false;
        for (ParentedEntityPtr p = v->parent(); p != nullptr; p = p->parent()) {
            inModel = inModel || std::dynamic_pointer_cast<Model>(p) != nullptr;
        }
        s.expect(inModel || !r, "addExternalVariable() accepted a variable that is in no model (its component, or the top of its hierarchy, is in none)");
        l.previous = v;
    });
    recv("Live.Analyser.lookups", K_VAR, 0, [=](Svc &s) {
        auto &l = *s.live;
        if (l.analyser == nullptr) {
            return;
        }
        auto v = std::dynamic_pointer_cast<Variable>(s.recv);
        auto c = std::dynamic_pointer_cast<Component>(v->parent());
        ModelPtr m;
        for (ParentedEntityPtr p = c; p != nullptr; p = p->parent()) {
            if (auto pm = std::dynamic_pointer_cast<Model>(p)) {
                m = pm;
            }
        }
        bool has = l.analyser->containsExternalVariable(m, nameOf(c), v->name());
        auto ev = l.analyser->externalVariable(m, nameOf(c), v->name());
        s.expect(has == (ev != nullptr), "containsExternalVariable() and externalVariable() disagree");
        s.expect(m != nullptr || (!has && ev == nullptr), "a null model was taken for the model of an external variable whose variable is in no model");
        if (m != nullptr && s.variant % 2 == 0) {
            // another model that looks exactly like it is another model
            auto twin = m->clone();
            size_t count = l.analyser->externalVariableCount();
            bool hasTwin = l.analyser->containsExternalVariable(twin, nameOf(c), v->name());
            auto evTwin = l.analyser->externalVariable(twin, nameOf(c), v->name());
            bool removedTwin = l.analyser->removeExternalVariable(twin, nameOf(c), v->name());
            s.expect(!hasTwin && evTwin == nullptr && !removedTwin && l.analyser->externalVariableCount() == count, "a copy of the model was taken for the model of a registered external variable (contains " + str(hasTwin) + ", removed " + str(removedTwin) + ")");
        }
        for (size_t i = 0; i <= l.analyser->externalVariableCount(); ++i) {
            auto e = l.analyser->externalVariable(i);
            s.expect((e != nullptr) == (i < l.analyser->externalVariableCount()), "externalVariable(index) null-ness disagrees with the count");
            if (e != nullptr) {
                e->variable();
                for (size_t d = 0; d <= e->dependencyCount(); ++d) {
                    e->dependency(d);
                }
            }
        }
        if (s.variant % 4 == 0 && has) {
            size_t before = l.analyser->externalVariableCount();
            bool r = l.analyser->removeExternalVariable(m, nameOf(c), v->name());
            s.expect(r && l.analyser->externalVariableCount() + 1 == before, "removeExternalVariable(model, component, variable) of a registered variable did not remove exactly one");
        }
    });
    // (the model analysed is a small valid one of the step's own: what the long-lived analyser remembers from the universe
    // are its external variables, whose variables may meanwhile have been moved, orphaned or destroyed; analysing models in
    // arbitrary invalid states is the validator's robustness, not an ownership matter)
    recv("Live.Analyser.analyseModel", K_VAR, 0, [=](Svc &s) {
        auto &l = *s.live;
        if (l.analyser == nullptr) {
            l.analyser = Analyser::create();
        }
        VariablePtr x, t;
        l.am = validAnalysis(s, x, t, l.analyser);
        dumpAnalyserModel(l.am);
    });
    recv("Live.AnalyserModel.queries", K_VAR, 0, [=](Svc &s) {
        auto &l = *s.live;
        if (l.am == nullptr) {
            return;
        }
        auto v = std::dynamic_pointer_cast<Variable>(s.recv);
        auto other = l.previous.lock();
        bool ab = l.am->areEquivalentVariables(v, other), ba = l.am->areEquivalentVariables(other, v);
        s.expect(ab == ba, "areEquivalentVariables() is not symmetric on a long-lived analyser model");
        dumpAnalyserModel(l.am); // walks variables, equations, dependencies: whatever they refer to must still be there
        if (l.generator == nullptr) {
            l.generator = Generator::create();
        }
        l.generator->setModel(l.am);
        l.generator->interfaceCode();
        l.generator->implementationCode();
        l.previous = v;
    });
    // An external variable remembers its dependencies; they are looked up by (model, component name, variable name) - the
    // answer must follow where the dependency is NOW (its component may have been moved to another model, renamed, emptied).
    recv("Live.ExternalVariable.dependencies", K_VAR, 0, [=](Svc &s) {
        auto &l = *s.live;
        auto v = std::dynamic_pointer_cast<Variable>(s.recv);
        auto modelOf = [](const VariablePtr &x) {
            ModelPtr m;
            for (ParentedEntityPtr p = x != nullptr ? x->parent() : nullptr; p != nullptr; p = p->parent()) {
                if (auto pm = std::dynamic_pointer_cast<Model>(p)) {
                    m = pm;
                }
            }
            return m;
        };
        if (l.ev == nullptr) {
            if (modelOf(v) != nullptr) {
                l.ev = AnalyserExternalVariable::create(v);
            }
            return;
        }
        if (s.variant % 3 == 0) {
            size_t before = l.ev->dependencyCount();
            bool r = l.ev->addDependency(v);
            s.expect(l.ev->dependencyCount() == before + (r ? 1 : 0), "addDependency() returned " + str(r) + " but the count went from " + str(before) + " to " + str(l.ev->dependencyCount()));
        }
        auto comp = std::dynamic_pointer_cast<Component>(v->parent());
        std::string cname = nameOf(comp), vname = v->name();
        {
            // no model is nobody's model
            size_t before = l.ev->dependencyCount();
            ModelPtr none;
            bool has = l.ev->containsDependency(none, cname, vname);
            auto got = l.ev->dependency(none, cname, vname);
            bool removed = s.variant % 4 == 1 && l.ev->removeDependency(none, cname, vname);
            s.expect(!has && got == nullptr && !removed && l.ev->dependencyCount() == before, "a null model was taken for the model of a dependency that is in no model any more (contains " + str(has) + ", removed " + str(removed) + ")");
        }
        std::vector<ModelPtr> asked {modelOf(v), modelOf(l.ev->variable()), modelOf(l.previous.lock())};
        for (auto &mm : asked) {
            if (mm == nullptr) {
                continue;
            }
            size_t matches = 0;
            for (size_t i = 0; i < l.ev->dependencyCount(); ++i) {
                auto d = l.ev->dependency(i);
                auto dc = d != nullptr ? std::dynamic_pointer_cast<Component>(d->parent()) : nullptr;
                if (d != nullptr && dc != nullptr && modelOf(d) == mm && dc->name() == cname && d->name() == vname) {
                    ++matches;
                }
            }
            bool has = l.ev->containsDependency(mm, cname, vname);
            auto got = l.ev->dependency(mm, cname, vname);
            s.expect(has == (matches > 0), "containsDependency(model '" + mm->name() + "', '" + cname + "', '" + vname + "') returned " + str(has) + " but " + str(matches) + " dependencies are there now");
            s.expect((got != nullptr) == (matches > 0), "dependency(model, component, variable) null-ness disagrees with where the dependencies are now");
            if (s.variant % 4 == 1) {
                size_t before = l.ev->dependencyCount();
                bool r = l.ev->removeDependency(mm, cname, vname);
                s.expect(r == (matches > 0) && l.ev->dependencyCount() + (r ? 1 : 0) == before, "removeDependency(model, component, variable) returned " + str(r) + " with " + str(matches) + " matching dependencies; count " + str(before) + " -> " + str(l.ev->dependencyCount()));
            }
        }
        l.previous = v;
    });
    recv("Live.Annotator.setModel", K_MODEL, 0, [=](Svc &s) {
        auto &l = *s.live;
        if (l.annotator == nullptr) {
            l.annotator = Annotator::create();
        }
        l.annotator->setModel(std::dynamic_pointer_cast<Model>(s.recv));
    });
    recv("Live.Annotator.lookups", K_MODEL, 0, [=](Svc &s) {
        auto &l = *s.live;
        if (l.annotator == nullptr) {
            return;
        }
        auto ids = l.annotator->ids();
        size_t total = 0;
        for (auto &id : ids) {
            size_t n = l.annotator->itemCount(id);
            total += n;
            auto items = l.annotator->items(id);
            s.expect(items.size() == n, "items(id).size() differs from itemCount(id)");
            auto one = l.annotator->item(id);
            s.expect(n != 1 || !emptyItem(one), "item(id) found nothing for an id that ids() lists once");
            for (size_t k = 0; k <= n; ++k) {
                l.annotator->item(id, k);
            }
        }
        l.annotator->duplicateIds();
        l.annotator->item("no_such_id");
        chk(s, l.annotator, "annotator", "item(unknown id)", true);
        (void)total;
    });
    recv("Live.Importer.library", K_MODEL, 0, [=](Svc &s) {
        auto &l = *s.live;
        if (l.importer == nullptr) {
            l.importer = Importer::create();
        }
        auto m = std::dynamic_pointer_cast<Model>(s.recv);
        std::string key = "key" + str(s.variant % 3);
        if (s.variant % 5 == 4) {
            l.importer->removeAllModels();
            s.expect(l.importer->libraryCount() == 0, "removeAllModels() left models in the library");
        } else if (!l.importer->addModel(m, key)) {
            bool r = l.importer->replaceModel(m, key);
            s.expect(r, "neither addModel() nor replaceModel() accepted a live model");
        }
        for (size_t i = 0; i <= l.importer->libraryCount(); ++i) {
            auto lm = l.importer->library(i);
            s.expect((lm != nullptr) == (i < l.importer->libraryCount()), "library(index) null-ness disagrees with libraryCount()");
            l.importer->library(l.importer->key(i));
        }
    });
    // the importer's list of import sources: add / remove by pointer / remove by index act on exactly that object
    recv("Live.Importer.importSources", K_IMP, 0, [=](Svc &s) {
        auto &l = *s.live;
        if (l.importer == nullptr) {
            l.importer = Importer::create();
        }
        auto src = std::dynamic_pointer_cast<ImportSource>(s.recv);
        auto listed = [&]() {
            std::vector<ImportSourcePtr> v;
            for (size_t i = 0; i < l.importer->importSourceCount(); ++i) {
                v.push_back(l.importer->importSource(i));
            }
            return v;
        };
        auto before = listed();
        bool present = std::find(before.begin(), before.end(), src) != before.end();
        switch (s.variant % 5) {
        case 0: {
            bool r = l.importer->addImportSource(src);
            auto after = listed();
            auto want = before;
            if (!present) {
                want.push_back(src);
            }
            s.expect(r == !present && after == want, "addImportSource() returned " + str(r) + " for an import source that was " + (present ? "already" : "not yet") + " listed; the list has " + str(after.size()) + " entries, expected " + str(want.size()));
            break;
        }
        case 1: {
            auto twin = src->clone(); // equal to src, another object
            bool r = l.importer->addImportSource(twin);
            s.expect(r && l.importer->importSourceCount() == before.size() + 1, "addImportSource(a copy of a listed import source) was refused");
            break;
        }
        case 2: {
            bool r = l.importer->removeImportSource(src);
            auto after = listed();
            if (present) {
                auto want = before;
                want.erase(std::find(want.begin(), want.end(), src));
                s.expect(r && after == want, "removeImportSource(listed import source) did not remove exactly that object");
            } else {
                s.expect(after.size() + (r ? 1 : 0) == before.size(), "removeImportSource(unlisted import source) returned " + str(r) + " but the list went from " + str(before.size()) + " to " + str(after.size()) + " entries");
            }
            break;
        }
        case 3:
            if (!before.empty()) {
                // a copy of a listed import source is appended and then removed again by its index: the list is as before
                size_t i = size_t(s.variant / 5) % before.size();
                if (l.importer->addImportSource(before[i]->clone())) {
                    bool r = l.importer->removeImportSource(before.size());
                    s.expect(r && listed() == before, "removeImportSource(index of a look-alike appended last) did not remove exactly the import source at that index");
                }
                before = listed();
                i = size_t(s.variant / 5) % before.size();
                bool r = l.importer->removeImportSource(i);
                auto after = listed();
                auto want = before;
                want.erase(want.begin() + long(i));
                s.expect(r && after == want, "removeImportSource(index " + str(i) + ") did not remove exactly the import source at that index");
            }
            break;
        default:
            s.expect(l.importer->hasImportSource(src) || !present, "hasImportSource() is false for a listed import source");
            for (size_t i = 0; i <= before.size(); ++i) {
                s.expect((l.importer->importSource(i) != nullptr) == (i < before.size()), "importSource(index) null-ness disagrees with importSourceCount()");
            }
        }
    });
    recv("Live.Importer.flattenModel", K_MODEL, 0, [=](Svc &s) {
        auto &l = *s.live;
        if (l.importer == nullptr) {
            l.importer = Importer::create();
        }
        auto flat = l.importer->flattenModel(std::dynamic_pointer_cast<Model>(s.recv));
        chk(s, l.importer, "importer", "flattenModel(handle)", flat == nullptr);
    });

    // the @model-dropped twins of the annotator entries
    size_t n = t.size();
    for (size_t i = 0; i < n; ++i) {
        if (t[i].annot) {
            SvcEntry e = t[i];
            e.name += "@model-dropped";
            e.mask[0] = mN;
            e.mask[1] = 0;
            e.annot = false;
            auto inner = t[i].run;
            e.run = [inner](Svc &s) { inner(s); };
            t.push_back(e);
        }
    }
    return t;
}

} // namespace hist
