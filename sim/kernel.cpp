// cellsim kernel: zygote / fork-per-run, protocol, gates, shrinking, replay files.
#include "kernel.h"

#include <algorithm>
#include <cerrno>
#include <chrono>
#include <csignal>
#include <cstdlib>
#include <cstring>
#include <fcntl.h>
#include <fstream>
#include <iostream>
#include <poll.h>
#include <sys/prctl.h>
#include <sys/resource.h>
#include <sys/stat.h>
#include <sys/wait.h>
#include <unistd.h>

extern "C" int __llvm_profile_write_file(void) __attribute__((weak));

namespace sim {

uint64_t fnv(const std::string &s, uint64_t h)
{
    for (unsigned char c : s) {
        h ^= c;
        h *= 0x100000001b3ULL;
    }
    return h;
}

uint64_t mixSeed(uint64_t seed, const std::string &engine, uint64_t run)
{
    uint64_t x = seed * 0x9e3779b97f4a7c15ULL ^ fnv(engine);
    Rng::splitmix(x);
    x ^= run * 0xd1342543de82ef95ULL + 0x2545f4914f6cdd1dULL;
    return Rng::splitmix(x);
}

std::string hex64(uint64_t v)
{
    char b[20];
    snprintf(b, sizeof b, "%016llx", (unsigned long long)v);
    return b;
}

std::string jsonEscape(const std::string &s)
{
    std::string o;
    for (unsigned char c : s) {
        switch (c) {
        case '"': o += "\\\""; break;
        case '\\': o += "\\\\"; break;
        case '\n': o += "\\n"; break;
        case '\r': o += "\\r"; break;
        case '\t': o += "\\t"; break;
        default:
            if (c < 0x20 || c >= 0x7f) {
                char b[8];
                snprintf(b, sizeof b, "\\u%04x", c);
                o += b;
            } else {
                o += char(c);
            }
        }
    }
    return o;
}

// ---------------------------------------------------------------- plan text

std::string Plan::text() const
{
    std::ostringstream o;
    o << "engine " << engine << "\n";
    for (auto &kv : cfg) {
        o << "cfg " << kv.first << " " << kv.second << "\n";
    }
    for (auto &s : steps) {
        o << "step " << s.task << " " << s.op;
        for (auto v : s.a) {
            o << " " << v;
        }
        o << "\n";
    }
    return o.str();
}

bool Plan::parse(const std::string &text, Plan &out, std::string &err)
{
    out = Plan();
    std::istringstream in(text);
    std::string line;
    while (std::getline(in, line)) {
        if (line.empty() || line[0] == '#') {
            continue;
        }
        std::istringstream ls(line);
        std::string kw;
        ls >> kw;
        if (kw == "engine") {
            ls >> out.engine;
        } else if (kw == "cfg") {
            std::string k;
            long v;
            ls >> k >> v;
            out.cfg[k] = v;
        } else if (kw == "step") {
            Step s;
            ls >> s.task >> s.op;
            long v;
            while (ls >> v) {
                s.a.push_back(v);
            }
            out.steps.push_back(s);
        } else {
            err = "bad plan line: " + line;
            return false;
        }
    }
    if (out.engine.empty()) {
        err = "plan has no engine line";
        return false;
    }
    return true;
}

// ---------------------------------------------------------------- child side

static std::string oneLine(std::string s)
{
    for (auto &c : s) {
        if (c == '\n' || c == '\t' || c == '\r') {
            c = ' ';
        }
    }
    return s;
}

void Ctx::send(const std::string &line)
{
    std::string l = line + "\n";
    const char *p = l.data();
    size_t n = l.size();
    while (n > 0) {
        ssize_t w = write(fd, p, n);
        if (w < 0) {
            if (errno == EINTR) {
                continue;
            }
            _exit(3);
        }
        p += w;
        n -= size_t(w);
    }
}

void Ctx::ev(const std::string &line)
{
    fp = fnv(line, fp);
    fp = fnv("\n", fp);
    ++events;
    if (trace) {
        fprintf(stderr, "EV %s\n", line.c_str());
    }
}

void Ctx::begin(int step, const std::string &op, const std::string &tags)
{
    curStep = step;
    curOp = op;
    curTags = tags;
    send("B\t" + str(step) + "\t" + op + "\t" + tags);
}

void Ctx::tags(const std::string &t)
{
    curTags = t;
    send("B\t" + str(curStep) + "\t" + curOp + "\t" + t);
}

void Ctx::violate(const std::string &property, const std::string &cls, const std::string &tags, const std::string &detail, bool continuable)
{
    Violation v;
    v.property = property;
    v.cls = cls;
    v.sig = cls + "@" + curOp + ":" + tags;
    v.detail = detail;
    v.step = curStep;
    if (continuable && knownSigs != nullptr && knownSigs->count(v.sig) != 0) {
        ev("KNOWN " + property + " " + v.sig);
        send("K\t" + property + "\t" + v.sig);
        count("known_finding_hits_continued");
        return;
    }
    violations.push_back(v);
    ev("VIOLATION " + property + " " + v.sig);
    send("V\t" + property + "\t" + cls + "\t" + v.sig + "\t" + str(curStep) + "\t" + oneLine(detail));
    if (stopOnViolation) {
        finish();
        if (__llvm_profile_write_file != nullptr) {
            __llvm_profile_write_file();
        }
        _exit(0);
    }
}

void Ctx::observe(const std::string &key, const std::string &digest)
{
    send("O\t" + key + "\t" + digest);
}

void Ctx::finish()
{
    std::string c = "C";
    for (auto &kv : counters) {
        c += "\t" + kv.first + "=" + str(kv.second);
    }
    send(c);
    std::string st = "S";
    for (auto h : states) {
        st += "\t" + hex64(h).substr(4);
    }
    send(st);
    send("F\t" + hex64(fp) + "\t" + str(events) + "\t" + str(nontrivial ? 1 : 0));
}

// ---------------------------------------------------------------- engines

static std::vector<Engine> &engines()
{
    static std::vector<Engine> e;
    return e;
}

void registerEngine(const Engine &e)
{
    engines().push_back(e);
}

const Engine *findEngine(const std::string &name)
{
    for (auto &e : engines()) {
        if (e.name == name) {
            return &e;
        }
    }
    return nullptr;
}

} // namespace sim

// ================================================================== parent side

using namespace sim;

namespace {

struct RunResult
{
    bool finished = false; // F record seen
    std::string fp;
    long events = 0;
    bool nontrivial = false;
    std::map<std::string, long> counters;
    std::vector<std::string> states;
    bool hasViolation = false;
    Violation v;
    int lastStep = -1;
    std::string lastOp, lastTags;
    std::string err; // captured stderr (tail)
    double wall = 0;
    std::vector<std::string> knownHits; // known findings the run continued past
    std::map<std::string, std::string> observations;
};

bool gTrace = false;
std::set<std::string> gKnown;
bool gVerbose = false;
std::string gCrashProperty = "C09";

double nowS()
{
    using namespace std::chrono;
    return duration<double>(steady_clock::now().time_since_epoch()).count();
}

std::vector<std::string> split(const std::string &s, char sep)
{
    std::vector<std::string> out;
    size_t i = 0;
    while (true) {
        size_t j = s.find(sep, i);
        if (j == std::string::npos) {
            out.push_back(s.substr(i));
            break;
        }
        out.push_back(s.substr(i, j - i));
        i = j + 1;
    }
    return out;
}

std::string classifyStderr(const std::string &err, int status, bool timedOut, std::string &detail)
{
    if (timedOut) {
        detail = "watchdog timeout (wall-clock fallback)";
        return "timeout";
    }
    if (WIFSIGNALED(status) && WTERMSIG(status) == SIGXCPU) {
        detail = "watchdog timeout (CPU seconds of the run exhausted)";
        return "timeout";
    }
    auto find = [&](const std::string &needle) { return err.find(needle); };
    size_t p;
    if ((p = find("ERROR: AddressSanitizer: ")) != std::string::npos) {
        size_t s = p + strlen("ERROR: AddressSanitizer: ");
        size_t e = err.find_first_of(" \n", s);
        std::string kind = err.substr(s, e - s);
        size_t eol = err.find('\n', p);
        detail = err.substr(p, eol - p);
        if (kind == "SEGV") {
            // distinguish null-ish dereferences from wild ones
            size_t a = err.find("unknown address 0x", p);
            if (a != std::string::npos) {
                unsigned long long addr = strtoull(err.c_str() + a + strlen("unknown address "), nullptr, 16);
                kind = addr < 0x1000 ? "SEGV-null" : "SEGV";
            }
        }
        return "asan-" + kind;
    }
    if ((p = find("runtime error: ")) != std::string::npos) {
        size_t eol = err.find('\n', p);
        detail = err.substr(p, eol - p);
        return "ubsan";
    }
    if ((p = find("terminate called after throwing an instance of '")) != std::string::npos) {
        size_t s = p + strlen("terminate called after throwing an instance of '");
        size_t e = err.find('\'', s);
        detail = err.substr(p, err.find('\n', p) - p);
        return "uncaught-" + err.substr(s, e - s);
    }
    if (WIFSIGNALED(status)) {
        detail = std::string("killed by signal ") + strsignal(WTERMSIG(status));
        return std::string("signal-") + str(WTERMSIG(status));
    }
    if (WIFEXITED(status) && WEXITSTATUS(status) != 0) {
        detail = "exit status " + str(WEXITSTATUS(status));
        return "exit-" + str(WEXITSTATUS(status));
    }
    detail = "child ended without a final record";
    return "no-final-record";
}

std::string crashLocation(const std::string &err, bool mostFrequent);
RunResult runPlan(const Engine &eng, const Plan &plan);

// Execute one plan in a forked child and collect what it reports.
RunResult runSingle(const Engine &eng, const Plan &plan, const std::map<std::string, std::string> *expected)
{
    RunResult r;
    int po[2], pe[2];
    if (pipe(po) != 0 || pipe(pe) != 0) {
        perror("pipe");
        exit(2);
    }
    double t0 = nowS();
    fflush(stdout);
    fflush(stderr);
    pid_t pid = fork();
    if (pid < 0) {
        perror("fork");
        exit(2);
    }
    if (pid == 0) {
        prctl(PR_SET_PDEATHSIG, SIGKILL); // a run never outlives its zygote
        close(po[0]);
        close(pe[0]);
        dup2(pe[1], 2);
        close(pe[1]);
        struct rlimit rl;
        rl.rlim_cur = rl.rlim_max = 0;
        setrlimit(RLIMIT_CORE, &rl);
        rl.rlim_cur = 8u << 20;
        rl.rlim_max = RLIM_INFINITY;
        getrlimit(RLIMIT_STACK, &rl);
        rl.rlim_cur = 8u << 20;
        setrlimit(RLIMIT_STACK, &rl);
        // The watchdog proper: CPU seconds of the run, not wall time (a loaded machine must not turn a slow run
        // into a "timeout").  SIGXCPU ends the child at the soft limit, SIGKILL shortly after.
        rl.rlim_cur = rlim_t(eng.timeoutS);
        rl.rlim_max = rlim_t(eng.timeoutS) + 2;
        setrlimit(RLIMIT_CPU, &rl);
        signal(SIGXCPU, SIG_DFL);
        Ctx ctx;
        ctx.fd = po[1];
        ctx.trace = gTrace;
        ctx.knownSigs = &gKnown;
        ctx.expected = expected;
        eng.execute(plan, ctx);
        ctx.finish();
        if (__llvm_profile_write_file != nullptr) {
            __llvm_profile_write_file(); // coverage flavour only: the child leaves through _exit()
        }
        _exit(0);
    }
    close(po[1]);
    close(pe[1]);
    std::string out, err;
    struct pollfd fds[2] = {{po[0], POLLIN, 0}, {pe[0], POLLIN, 0}};
    bool open0 = true, open1 = true, timedOut = false;
    // wall-clock fallback only for a child that stops making progress without using the CPU (nothing in the library blocks)
    double deadline = t0 + std::max(20.0 * eng.timeoutS, 600.0);
    char buf[65536];
    while (open0 || open1) {
        double left = deadline - nowS();
        if (left <= 0) {
            timedOut = true;
            kill(pid, SIGKILL);
            break;
        }
        fds[0].fd = open0 ? po[0] : -1;
        fds[1].fd = open1 ? pe[0] : -1;
        int n = poll(fds, 2, int(left * 1000) + 1);
        if (n < 0) {
            if (errno == EINTR) {
                continue;
            }
            break;
        }
        for (int i = 0; i < 2; ++i) {
            if (fds[i].fd >= 0 && (fds[i].revents & (POLLIN | POLLHUP | POLLERR))) {
                ssize_t k = read(fds[i].fd, buf, sizeof buf);
                if (k <= 0) {
                    (i == 0 ? open0 : open1) = false;
                } else if (i == 0) {
                    out.append(buf, size_t(k));
                } else if (err.size() < (1u << 20)) {
                    err.append(buf, size_t(k));
                }
            }
        }
    }
    close(po[0]);
    close(pe[0]);
    int status = 0;
    waitpid(pid, &status, 0);
    r.wall = nowS() - t0;
    r.err = err;
    if (gTrace) {
        fputs(err.c_str(), stderr);
    }
    for (auto &line : split(out, '\n')) {
        if (line.empty()) {
            continue;
        }
        auto f = split(line, '\t');
        if (f[0] == "B" && f.size() >= 4) {
            r.lastStep = atoi(f[1].c_str());
            r.lastOp = f[2];
            r.lastTags = f[3];
        } else if (f[0] == "V" && f.size() >= 6 && !r.hasViolation) {
            r.hasViolation = true;
            r.v.property = f[1];
            r.v.cls = f[2];
            r.v.sig = f[3];
            r.v.step = atoi(f[4].c_str());
            r.v.detail = f[5];
        } else if (f[0] == "O" && f.size() >= 3) {
            r.observations[f[1]] = f[2];
        } else if (f[0] == "K" && f.size() >= 3) {
            r.knownHits.push_back(f[1] + "\t" + f[2]);
        } else if (f[0] == "C") {
            for (size_t i = 1; i < f.size(); ++i) {
                auto eq = f[i].find('=');
                if (eq != std::string::npos) {
                    r.counters[f[i].substr(0, eq)] = atol(f[i].c_str() + eq + 1);
                }
            }
        } else if (f[0] == "S") {
            r.states.assign(f.begin() + 1, f.end());
        } else if (f[0] == "F" && f.size() >= 4) {
            r.finished = true;
            r.fp = f[1];
            r.events = atol(f[2].c_str());
            r.nontrivial = f[3] == "1";
        }
    }
    bool clean = r.finished && !timedOut && WIFEXITED(status) && WEXITSTATUS(status) == 0;
    if (!clean && !r.hasViolation) {
        std::string detail;
        std::string cls = classifyStderr(err, status, timedOut, detail);
        r.hasViolation = true;
        r.v.property = gCrashProperty;
        r.v.cls = cls;
        std::string loc = crashLocation(err, cls == "asan-stack-overflow");
        std::string tags = r.lastTags;
        if (!loc.empty()) {
            tags += (tags.empty() ? "" : ",") + std::string("at-") + loc;
        }
        r.v.sig = cls + "@" + r.lastOp + ":" + tags;
        r.v.step = r.lastStep;
        r.v.detail = detail;
        r.fp = "crash-" + hex64(fnv(r.v.sig + "#" + str(r.lastStep)));
    } else if (!clean && r.hasViolation && !r.finished) {
        // violation reported, then the child died while finishing: keep the violation
        r.fp = "crash-after-violation";
    }
    return r;
}

// The libcellml function a sanitizer report points at: the first libcellml frame, or for stack
// exhaustion the most frequent one (the recursing function).
std::string crashLocation(const std::string &err, bool mostFrequent)
{
    std::map<std::string, int> freq;
    std::string first;
    size_t pos = 0;
    while ((pos = err.find(" in libcellml::", pos)) != std::string::npos) {
        pos += 15;
        size_t e = pos;
        while (e < err.size() && (isalnum(static_cast<unsigned char>(err[e])) || err[e] == ':' || err[e] == '_')) {
            ++e;
        }
        std::string fn = err.substr(pos, e - pos);
        if (first.empty()) {
            first = fn;
        }
        ++freq[fn];
        pos = e;
    }
    if (!mostFrequent) {
        return first;
    }
    std::string best;
    int bestN = 0;
    for (auto &kv : freq) {
        if (kv.second > bestN) {
            best = kv.first;
            bestN = kv.second;
        }
    }
    return best;
}

// One run = the auxiliary runs the engine asks for (each in a fresh child), then the main run, which is
// given what they observed.  A violation inside an auxiliary run is the run's violation.
RunResult runPlan(const Engine &eng, const Plan &plan)
{
    if (!eng.auxiliary) {
        return runSingle(eng, plan, nullptr);
    }
    std::map<std::string, std::string> expected;
    double wall = 0;
    for (auto &aux : eng.auxiliary(plan)) {
        RunResult a = runSingle(eng, aux, nullptr);
        wall += a.wall;
        if (a.hasViolation) {
            a.v.sig += ",in-auxiliary-run";
            a.wall = wall;
            return a;
        }
        expected.insert(a.observations.begin(), a.observations.end());
    }
    RunResult r = runSingle(eng, plan, &expected);
    r.wall += wall;
    return r;
}

bool sameViolation(const RunResult &a, const RunResult &b)
{
    return a.hasViolation && b.hasViolation && a.v.property == b.v.property && a.v.cls == b.v.cls;
}

// ddmin over steps, then engine simplifications and argument zeroing.
Plan shrinkPlan(const Engine &eng, const Plan &orig, const RunResult &ref, int budget, int &used)
{
    Plan best = orig;
    used = 0;
    // a time budget as well: a violation whose runs are slow (hangs in particular) must not stall the batch
    double deadline = nowS() + 90;
    if (ref.v.cls == "timeout") {
        budget = std::min(budget, 6);
    }
    auto test = [&](const Plan &p) {
        if (used >= budget || nowS() > deadline) {
            return false;
        }
        ++used;
        RunResult r = runPlan(eng, p);
        return sameViolation(ref, r);
    };
    // steps after the violating one cannot matter
    if (ref.v.step >= 0 && size_t(ref.v.step + 1) < best.steps.size()) {
        Plan p = best;
        p.steps.resize(size_t(ref.v.step + 1));
        if (test(p)) {
            best = p;
        }
    }
    size_t n = 2;
    while (best.steps.size() >= 2 && used < budget) {
        size_t len = best.steps.size();
        size_t chunk = (len + n - 1) / n;
        bool reduced = false;
        for (size_t start = 0; start < len && used < budget; start += chunk) {
            Plan p = best;
            size_t end = std::min(len, start + chunk);
            p.steps.erase(p.steps.begin() + long(start), p.steps.begin() + long(end));
            if (p.steps.empty()) {
                continue;
            }
            if (test(p)) {
                best = p;
                n = std::max<size_t>(n - 1, 2);
                reduced = true;
                break;
            }
        }
        if (!reduced) {
            if (n >= len) {
                break;
            }
            n = std::min(len, n * 2);
        }
    }
    // single-step removal (ddmin with chunk 1 may have been cut short by the budget logic above)
    for (size_t i = 0; i < best.steps.size() && best.steps.size() > 1 && used < budget;) {
        Plan p = best;
        p.steps.erase(p.steps.begin() + long(i));
        if (test(p)) {
            best = p;
        } else {
            ++i;
        }
    }
    bool progress = true;
    while (progress && used < budget) {
        progress = false;
        if (eng.simplify) {
            for (auto &cand : eng.simplify(best)) {
                if (used >= budget) {
                    break;
                }
                if (cand.text() != best.text() && test(cand)) {
                    best = cand;
                    progress = true;
                    break;
                }
            }
            if (progress) {
                continue;
            }
        }
        for (size_t i = 0; i < best.steps.size() && !progress && used < budget; ++i) {
            for (size_t j = eng.firstShrinkableArg; j < best.steps[i].a.size() && used < budget; ++j) {
                if (best.steps[i].a[j] != 0) {
                    Plan p = best;
                    p.steps[i].a[j] = 0;
                    if (test(p)) {
                        best = p;
                        progress = true;
                        break;
                    }
                }
            }
        }
        // try again to drop steps after simplification
        for (size_t i = 0; i < best.steps.size() && best.steps.size() > 1 && used < budget;) {
            Plan p = best;
            p.steps.erase(p.steps.begin() + long(i));
            if (test(p)) {
                best = p;
                progress = true;
            } else {
                ++i;
            }
        }
    }
    return best;
}

std::string planJson(const Plan &p)
{
    std::string o = "[";
    bool first = true;
    for (auto &l : split(p.text(), '\n')) {
        if (l.empty()) {
            continue;
        }
        o += (first ? "\"" : ", \"") + jsonEscape(l) + "\"";
        first = false;
    }
    return o + "]";
}

void mkdirs(const std::string &path)
{
    std::string cur;
    for (auto &part : split(path, '/')) {
        cur += part + "/";
        mkdir(cur.c_str(), 0777);
    }
}

std::set<std::string> readLines(const std::string &file)
{
    std::set<std::string> s;
    std::ifstream in(file);
    std::string l;
    while (std::getline(in, l)) {
        if (!l.empty()) {
            s.insert(l);
        }
    }
    return s;
}

int usage()
{
    fprintf(stderr, "usage: cellsim run <engine> [--seed S] [--start A] [--count N] [--stride K] [--offset O] [--tier T]\n"
                    "                 [--out DIR] [--known FILE] [--cfg k=v]... [--samples N] [--no-shrink]\n"
                    "       cellsim exec <planfile> [--trace]\n"
                    "       cellsim plan <engine> --seed S --run I [--tier T] [--cfg k=v]...\n"
                    "       cellsim engines\n");
    return 2;
}

} // namespace

extern "C" void cellsimRegisterEngines();

int main(int argc, char **argv)
{
    cellsimRegisterEngines();
    if (argc < 2) {
        return usage();
    }
    std::string cmd = argv[1];
    uint64_t seed = 1, start = 0, count = 100, stride = 1, offset = 0;
    long samples = 0;
    bool doShrink = true;
    std::string outDir = "out", knownFile, target;
    Opts opts;
    int ai = 2;
    if (cmd != "engines") {
        if (argc < 3) {
            return usage();
        }
        target = argv[2];
        ai = 3;
    }
    for (; ai < argc; ++ai) {
        std::string a = argv[ai];
        auto val = [&]() -> std::string {
            if (ai + 1 >= argc) {
                exit(usage());
            }
            return argv[++ai];
        };
        if (a == "--seed") {
            seed = strtoull(val().c_str(), nullptr, 10);
        } else if (a == "--start" || a == "--run") {
            start = strtoull(val().c_str(), nullptr, 10);
        } else if (a == "--count") {
            count = strtoull(val().c_str(), nullptr, 10);
        } else if (a == "--stride") {
            stride = strtoull(val().c_str(), nullptr, 10);
        } else if (a == "--offset") {
            offset = strtoull(val().c_str(), nullptr, 10);
        } else if (a == "--tier") {
            opts.tier = val();
        } else if (a == "--out") {
            outDir = val();
        } else if (a == "--known") {
            knownFile = val();
        } else if (a == "--samples") {
            samples = atol(val().c_str());
        } else if (a == "--no-shrink") {
            doShrink = false;
        } else if (a == "--trace") {
            gTrace = true;
        } else if (a == "--verbose") {
            gVerbose = true;
        } else if (a == "--cfg") {
            std::string kv = val();
            auto eq = kv.find('=');
            opts.force[kv.substr(0, eq)] = atol(kv.c_str() + eq + 1);
        } else {
            return usage();
        }
    }

    if (cmd == "engines") {
        for (int i = 0;; ++i) {
            static const char *names[] = {"equiv", "import", "annot", "purity", "history", nullptr};
            if (names[i] == nullptr) {
                break;
            }
            if (auto e = findEngine(names[i])) {
                printf("%s %s\n", e->name.c_str(), e->flavour.c_str());
            }
        }
        return 0;
    }

    if (cmd == "sweepsize") {
        const Engine *eng = findEngine(target);
        if (eng == nullptr || !eng->sweepSize) {
            fprintf(stderr, "engine %s has no enumerated sweep\n", target.c_str());
            return 2;
        }
        printf("%llu\n", (unsigned long long)eng->sweepSize(opts));
        return 0;
    }

    if (cmd == "plan") {
        const Engine *eng = findEngine(target);
        if (eng == nullptr) {
            fprintf(stderr, "unknown engine %s\n", target.c_str());
            return 2;
        }
        Rng rng(mixSeed(seed, eng->name, start));
        Plan p = eng->generate(rng, opts, start);
        fputs(p.text().c_str(), stdout);
        return 0;
    }

    if (cmd == "exec") {
        std::ifstream in(target);
        std::stringstream ss;
        ss << in.rdbuf();
        Plan p;
        std::string err;
        if (!Plan::parse(ss.str(), p, err)) {
            fprintf(stderr, "%s\n", err.c_str());
            return 2;
        }
        const Engine *eng = findEngine(p.engine);
        if (eng == nullptr) {
            fprintf(stderr, "unknown engine %s\n", p.engine.c_str());
            return 2;
        }
        gCrashProperty = eng->crashProperty;
        if (!knownFile.empty()) {
            gKnown = readLines(knownFile);
        }
        RunResult r = runPlan(*eng, p);
        for (auto &kh : r.knownHits) {
            printf("KNOWNHIT\t%s\n", kh.c_str());
        }
        printf("RESULT fp=%s events=%ld violation=%d\n", r.fp.c_str(), r.events, r.hasViolation ? 1 : 0);
        if (r.hasViolation) {
            printf("VIOL\t%s\t%s\t%s\t%d\t%s\n", r.v.property.c_str(), r.v.cls.c_str(), r.v.sig.c_str(), r.v.step, r.v.detail.c_str());
            if (gVerbose && !r.err.empty()) {
                fprintf(stderr, "%s\n", r.err.c_str());
            }
        }
        std::string c = "COUNTERS";
        for (auto &kv : r.counters) {
            c += " " + kv.first + "=" + str(kv.second);
        }
        puts(c.c_str());
        return r.hasViolation ? 1 : 0;
    }

    if (cmd != "run") {
        return usage();
    }

    const Engine *eng = findEngine(target);
    if (eng == nullptr) {
        fprintf(stderr, "unknown engine %s\n", target.c_str());
        return 2;
    }
    gCrashProperty = eng->crashProperty;
    std::set<std::string> known;
    if (!knownFile.empty()) {
        known = readLines(knownFile);
    }
    gKnown = known;
    mkdirs(outDir);

    std::map<std::string, long> totals;
    std::set<std::string> allStates;
    std::set<std::string> reportedSigs;
    long nViol = 0, nKnown = 0, nRuns = 0, harnessErrors = 0, nTimeouts = 0, nTransient = 0;
    double t0 = nowS();
    for (uint64_t idx = start + offset; idx < start + count; idx += stride) {
        Rng rng(mixSeed(seed, eng->name, idx));
        Plan plan = eng->generate(rng, opts, idx);
        RunResult r = runPlan(*eng, plan);
        ++nRuns;
        for (auto &kv : r.counters) {
            totals[kv.first] += kv.second;
        }
        for (auto &s : r.states) {
            if (allStates.size() < 400000) {
                allStates.insert(s);
            }
        }
        totals["steps_planned"] += long(plan.steps.size());
        printf("R\t%llu\t%s\t%d\t%d\t%ld\n", (unsigned long long)idx, r.fp.c_str(), r.nontrivial ? 1 : 0, r.hasViolation ? 1 : 0, r.events);
        if (samples > 0 && !r.hasViolation && r.nontrivial) {
            --samples;
            printf("SAMPLE\t%llu\t%s\n", (unsigned long long)idx, planJson(plan).c_str());
        }
        for (auto &kh : r.knownHits) {
            ++nKnown;
            printf("KNOWNHIT\t%llu\t%s\n", (unsigned long long)idx, kh.c_str());
        }
        if (!r.hasViolation) {
            continue;
        }
        // the batch has already failed: do not spend the budget on hundreds of further (possibly hanging) runs
        if (r.v.cls == "timeout") {
            ++nTimeouts;
        }
        if (nViol >= 40 || nTimeouts > 4) {
            printf("STOPPED\t%llu\tearly stop after %ld violations / %ld timeouts\n", (unsigned long long)idx, nViol, nTimeouts);
            break;
        }
        if (known.count(r.v.sig) != 0) {
            ++nKnown;
            printf("KNOWNHIT\t%llu\t%s\t%s\n", (unsigned long long)idx, r.v.property.c_str(), r.v.sig.c_str());
            continue;
        }
        // Gate 1: the same plan twice more must give the same fingerprint and signature.
        RunResult r2 = runPlan(*eng, plan), r3 = runPlan(*eng, plan);
        if (!r2.hasViolation && !r3.hasViolation && r2.fp == r3.fp && r.fp.compare(0, 6, "crash-") == 0 && nTransient < 3) {
            // The child died (or never reported) once, and the same plan then ran clean twice with identical event logs:
            // the machine, not the run (a saturated sandbox occasionally fails a fork's memory mappings).  Not an oracle
            // verdict - those never come here - and tolerated at most three times per worker; counted in the evidence.
            ++nTransient;
            totals["transient_child_failures_not_reproduced"] += 1;
            printf("TRANSIENT\t%llu\t%s\t%s\n", (unsigned long long)idx, r.v.sig.c_str(), r.v.detail.c_str());
            std::ofstream(outDir + "/transient-" + eng->name + "-" + str(seed) + "-" + str(idx) + ".txt") << r.v.sig << "\n" << r.v.detail << "\n" << r.err << "\n" << plan.text();
            continue;
        }
        if (!(r2.hasViolation && r3.hasViolation && r2.v.sig == r.v.sig && r3.v.sig == r.v.sig && r2.fp == r.fp && r3.fp == r.fp)) {
            ++harnessErrors;
            std::string f = outDir + "/nondeterministic-" + eng->name + "-" + str(seed) + "-" + str(idx) + ".plan";
            std::ofstream(f) << plan.text();
            std::ofstream(f + ".stderr") << r.v.detail << "\n" << r.err;
            printf("HARNESS\t%llu\tgate1 failed: sig/fp %s %s | %s %s | %s %s plan=%s\n", (unsigned long long)idx, r.v.sig.c_str(), r.fp.c_str(), r2.v.sig.c_str(), r2.fp.c_str(), r3.v.sig.c_str(), r3.fp.c_str(), f.c_str());
            continue;
        }
        if (reportedSigs.count(r.v.sig) != 0) {
            // already minimised and reported in this worker: count only
            printf("DUP\t%llu\t%s\t%s\n", (unsigned long long)idx, r.v.property.c_str(), r.v.sig.c_str());
            ++nViol;
            continue;
        }
        reportedSigs.insert(r.v.sig);
        Plan minimal = plan;
        int used = 0;
        if (doShrink) {
            minimal = shrinkPlan(*eng, plan, r, 400, used);
        }
        RunResult m1 = runPlan(*eng, minimal), m2 = runPlan(*eng, minimal);
        if (!(sameViolation(r, m1) && sameViolation(r, m2) && m1.fp == m2.fp && m1.v.sig == m2.v.sig)) {
            ++harnessErrors;
            printf("HARNESS\t%llu\tgate2 failed after minimisation\n", (unsigned long long)idx);
            continue;
        }
        ++nViol;
        std::string file = outDir + "/violation-" + eng->name + "-" + str(seed) + "-" + str(idx) + ".json";
        {
            std::ofstream o(file);
            o << "{\n \"engine\": \"" << eng->name << "\",\n \"seed\": " << seed << ",\n \"run\": " << idx
              << ",\n \"tier\": \"" << opts.tier << "\""
              << ",\n \"property\": \"" << m1.v.property << "\",\n \"class\": \"" << jsonEscape(m1.v.cls) << "\",\n \"signature\": \"" << jsonEscape(m1.v.sig)
              << "\",\n \"original_signature\": \"" << jsonEscape(r.v.sig)
              << "\",\n \"detail\": \"" << jsonEscape(m1.v.detail) << "\",\n \"fingerprint\": \"" << m1.fp
              << "\",\n \"violating_step\": " << m1.v.step << ",\n \"original_steps\": " << plan.steps.size() << ",\n \"minimised_steps\": " << minimal.steps.size()
              << ",\n \"shrink_runs\": " << used << ",\n \"stderr_tail\": \"" << jsonEscape(m1.err.substr(0, 3000)) << "\",\n \"plan\": " << planJson(minimal) << "\n}\n";
        }
        printf("VIOL\t%llu\t%s\t%s\t%s\t%s\t%zu\t%zu\t%d\t%s\n", (unsigned long long)idx, m1.v.property.c_str(), m1.v.cls.c_str(), m1.v.sig.c_str(), file.c_str(), plan.steps.size(), minimal.steps.size(), used, m1.v.detail.c_str());
        fflush(stdout);
    }
    std::string c = "TOTALS";
    for (auto &kv : totals) {
        c += "\t" + kv.first + "=" + str(kv.second);
    }
    puts(c.c_str());
    std::string st = "STATES";
    for (auto &s : allStates) {
        st += "\t" + s;
    }
    puts(st.c_str());
    printf("DONE\truns=%ld\tviolations=%ld\tknown=%ld\tharness=%ld\twall=%.2f\n", nRuns, nViol, nKnown, harnessErrors, nowS() - t0);
    fflush(stdout);
    return harnessErrors > 0 ? 2 : (nViol > 0 ? 1 : 0);
}
