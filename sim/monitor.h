// C15 monitor: coherence of a service's issue list, evaluated after every service call
// of every engine.
#pragma once

#include <string>

#include <libcellml/module/libcellml>

#include "kernel.h"

namespace sim {

// Checks the logger invariants of C15.  `what` names the call just made (for the signature).
// `failed` says the call reported failure (null / false / invalid model): then the list must be non-empty.
void checkLogger(Ctx &ctx, const libcellml::LoggerPtr &logger, const std::string &service, const std::string &what, bool failed);

// C15's failure-explained rule for analyses: invalid, under-, over- or unsuitably constrained.
bool analysisFailed(const libcellml::AnalyserModelPtr &am);

// Pushes every enumerator of Issue::ReferenceRule and CellmlElementType through the metadata accessors.
void checkRuleTable(Ctx &ctx);

} // namespace sim
