// The simulated world under the importer: generated import graphs, their XML rendering with
// fault offsets, the virtual file system served through hook H1, and the reference resolver.
#pragma once

#include <functional>
#include <map>
#include <memory>
#include <set>
#include <sstream>
#include <streambuf>
#include <string>
#include <vector>

#include "kernel.h"

namespace iw {

struct UnitsSpec
{
    std::string name;
    bool imported = false;
    std::string href, ref;
    int targetFile = -1;
    std::vector<std::string> children; // unit references (standard names or names of units in the same file)
    int flaw = 0; // 1: the element carries an attribute the parser reports as an error on this units
};

struct VarSpec
{
    std::string name, units;
};

struct CompSpec
{
    std::string name;
    bool imported = false;
    std::string href, ref;
    int targetFile = -1;
    int parent = -1; // encapsulation parent (index into comps), -1 = top level
    std::vector<VarSpec> vars;
    std::vector<std::string> cn; // units used by cn elements in the math
    int flaw = 0; // 1: the component element, 2: its first variable carries an attribute the parser reports as an error
};

struct FileSpec
{
    std::string path, dir, modelName;
    int servedVersion = -1; // set by the reference resolver: which version of the file this is (a library model and the file on disk may differ)
    bool rawDirSet = false;
    std::string rawUrl, rawDir; // set by the reference resolver: the URL exactly as the importer spells it (base + href, not normalised) - that spelling is the library key
    std::vector<UnitsSpec> units;
    std::vector<CompSpec> comps;
    bool groupImports = false;
    bool hasLocalUnitsCycle = false;
    bool noise = false; // extra content with parser errors that do not concern any importable entity ("benign noise")
    int findUnits(const std::string &n) const
    {
        for (size_t i = 0; i < units.size(); ++i) {
            if (units[i].name == n) {
                return int(i);
            }
        }
        return -1;
    }
    int findComp(const std::string &n) const
    {
        for (size_t i = 0; i < comps.size(); ++i) {
            if (comps[i].name == n) {
                return int(i);
            }
        }
        return -1;
    }
};

struct Graph
{
    std::vector<FileSpec> files; // files[0] is the root
};

struct GraphParams
{
    long maxFiles = 6;
    bool avoidIndirectUnits = false; // avoidance switch for the known "imports reachable only through local intermediates" defects
    bool encapsulationHeavy = false; // up to three imported components per file, mostly encapsulated below an imported component
    bool unitsHeavy = false; // graphs made mostly of units: more files, chains of imported units, ordinary units with several imported children
};

bool isStandardUnit(const std::string &n);
std::string normalisePath(const std::string &p);
std::string hrefBetween(const std::string &fromDir, const std::string &toPath);
// Port of the importer's own path arithmetic (the exact spelling is the library key): resolvePath() and normalisePath().
std::string libraryResolvePath(const std::string &filename, const std::string &base);
std::string libraryNormaliseBase(const std::string &basePath);
std::string relativeDir(const std::string &fromDir, const std::string &toDir); // toDir as seen from fromDir ("", "../", "../b/", ...)
Graph generateGraph(sim::Rng &rng, const GraphParams &gp);

// The enumerated family of small graphs (2-3 files): every combination of directory layout, what the root imports,
// what the imported entity is made of, and how encapsulation crosses the import.  enumeratedGraphCount() templates.
long enumeratedGraphCount();
Graph enumeratedGraph(long index);

// Offsets into a rendered document at which truncation is interesting.
struct Offsets
{
    size_t afterDecl = 0, inRootStartTag = 0, inAttributeValue = 0, betweenElements = 0, inLastEndTag = 0, afterRootEnd = 0, total = 0;
};
std::string render(const FileSpec &f, Offsets *off = nullptr);
std::string render11(const FileSpec &f); // the same content in CellML 1.1 syntax

enum class Load
{
    OK,
    ABSENT,
    UNREADABLE,
    TRUNCATED, // served bytes end at `cut` (EOF flavour)
    READFAIL_THROW, // served bytes end at `cut`, then the stream buffer throws
    GARBAGE, // not XML at all
    EMPTY, // zero bytes (also what reading a directory gives)
    NONCELLML, // well-formed XML with a foreign root element
    CELLML11, // the same model in CellML 1.1 syntax
    NOISY20, // the same model plus unrelated content that makes the parser report errors
    NOISY11 // CellML 1.1 syntax plus such content
};

struct FileVersion
{
    int id = 0;
    FileSpec spec;
    Load load = Load::OK;
    size_t cut = 0;
    std::string text; // what a complete read returns (before cut)
    size_t completeAt = 0; // offset after the root end tag of `text`
    std::string tag; // short description for logs / signatures
    int parsedStrict = -1; // a version as it sits in an importer's library: the parsing mode it was read in (-1: not such a version)
    int originId = -1; // ... and the version on disk it was read from
    bool opens() const { return load != Load::ABSENT && load != Load::UNREADABLE; }
    // well-formed as served?
    bool wellFormed() const
    {
        switch (load) {
        case Load::OK:
        case Load::NONCELLML:
        case Load::CELLML11:
        case Load::NOISY20:
        case Load::NOISY11:
            return true;
        case Load::TRUNCATED:
        case Load::READFAIL_THROW:
            return cut >= completeAt;
        default:
            return false;
        }
    }
    std::string served() const
    {
        if (load == Load::TRUNCATED || load == Load::READFAIL_THROW) {
            return text.substr(0, std::min(cut, text.size()));
        }
        if (load == Load::EMPTY) {
            return "";
        }
        return text;
    }
};

struct OpenRecord
{
    std::string url, path;
    int version = -1; // -1: no such file
    bool opened = false;
    size_t bytes = 0;
};

class Vfs
{
public:
    std::map<std::string, int> current; // normalised path -> version id
    std::vector<FileVersion> versions;
    std::vector<OpenRecord> log;
    std::string cwd = "/w/"; // the simulated process's working directory: relative URLs are opened relative to it
    std::string absolute(const std::string &url) const; // normalised absolute path of a URL as the file layer sees it
    std::function<void(size_t openIndex)> onOpen; // scheduler yield point: the filesystem operator may run here
    size_t opensThisCall = 0;
    std::vector<std::unique_ptr<std::streambuf>> buffers;

    int addVersion(const FileVersion &v, const std::string &path);
    int registerVersion(const FileVersion &v); // a version that is not on disk (a model handed to an importer's library)
    const FileVersion *at(const std::string &normPath) const;
    std::streambuf *open(const std::string &url);
    void beginCall()
    {
        opensThisCall = 0;
        log.clear();
    }
};

// ---- reference resolver

enum class Verdict
{
    SAT,
    UNSAT,
    UNDETERMINED // a cycle of ordinary (non-imported) units is reachable: only termination is claimed
};

struct RefResult
{
    Verdict verdict = Verdict::SAT;
    std::string why; // first reason for UNSAT / UNDETERMINED
    std::set<std::string> pathsNeeded;
};

using View = std::function<const FileVersion *(const std::string &normPath)>;

// Is every transitive import of the root model (given as a spec living at rootPath) satisfiable?
// libraryWalk: evaluate only what the importer visits below the client's own model (the listed finding C07-K1: in a library
// model it follows the units an imported component names and the imported children of imported units, but neither what lies
// below a non-imported units nor the units of non-imported components encapsulated by an imported one).  A closure that is
// unsatisfiable in full but satisfiable along this walk is C07-K1, not a new finding.
RefResult referenceResolve(const FileSpec &root, const View &view, bool strict, bool libraryWalk = false);

} // namespace iw
