#include "monitor.h"

#include <exception>
#include <vector>

using namespace libcellml;

namespace sim {

static bool typedObjectPresent(const AnyCellmlElementPtr &item, bool &hasAccessor)
{
    hasAccessor = true;
    switch (item->type()) {
    case CellmlElementType::COMPONENT:
    case CellmlElementType::COMPONENT_REF:
        return item->component() != nullptr;
    case CellmlElementType::CONNECTION:
    case CellmlElementType::MAP_VARIABLES:
        return item->variablePair() != nullptr;
    case CellmlElementType::ENCAPSULATION:
    case CellmlElementType::MODEL:
        return item->model() != nullptr;
    case CellmlElementType::IMPORT:
        return item->importSource() != nullptr;
    case CellmlElementType::RESET:
    case CellmlElementType::RESET_VALUE:
    case CellmlElementType::TEST_VALUE:
        return item->reset() != nullptr;
    case CellmlElementType::UNIT:
        return item->unitsItem() != nullptr;
    case CellmlElementType::UNITS:
        return item->units() != nullptr;
    case CellmlElementType::VARIABLE:
        return item->variable() != nullptr;
    case CellmlElementType::MATH: // the stored component has no public accessor
    case CellmlElementType::UNDEFINED:
        hasAccessor = false;
        return false;
    }
    hasAccessor = false;
    return false;
}

static int nonNullAccessors(const AnyCellmlElementPtr &item)
{
    return int(item->component() != nullptr) + int(item->variablePair() != nullptr) + int(item->model() != nullptr)
           + int(item->importSource() != nullptr) + int(item->reset() != nullptr) + int(item->unitsItem() != nullptr)
           + int(item->units() != nullptr) + int(item->variable() != nullptr);
}

bool analysisFailed(const AnalyserModelPtr &am)
{
    if (am == nullptr) {
        return false;
    }
    switch (am->type()) {
    case AnalyserModel::Type::INVALID:
    case AnalyserModel::Type::UNDERCONSTRAINED:
    case AnalyserModel::Type::OVERCONSTRAINED:
    case AnalyserModel::Type::UNSUITABLY_CONSTRAINED:
        return true;
    default:
        return false;
    }
}

void checkLogger(Ctx &ctx, const LoggerPtr &logger, const std::string &service, const std::string &what, bool failed)
{
    ctx.count("c15_logger_checks");
    auto bad = [&](const std::string &cls, const std::string &detail) {
        ctx.violate("C15", cls, service, service + " after " + what + ": " + detail);
    };
    size_t n = logger->issueCount(), ne = logger->errorCount(), nw = logger->warningCount(), nm = logger->messageCount();
    if (n != ne + nw + nm) {
        bad("count-mismatch", "issueCount=" + str(n) + " errors=" + str(ne) + " warnings=" + str(nw) + " messages=" + str(nm));
        return;
    }
    std::vector<IssuePtr> errs, warns, msgs;
    try {
        for (size_t i = 0; i < n; ++i) {
            auto is = logger->issue(i);
            if (is == nullptr) {
                bad("null-issue", "issue(" + str(i) + ") is null with issueCount=" + str(n));
                return;
            }
            int lvl = int(is->level());
            if (lvl < 0 || lvl > 2) {
                bad("level-out-of-range", "issue(" + str(i) + ") level=" + str(lvl));
                return;
            }
            (is->level() == Issue::Level::ERROR ? errs : (is->level() == Issue::Level::WARNING ? warns : msgs)).push_back(is);
            if (is->description().empty()) {
                bad("empty-description", "issue(" + str(i) + ") rule=" + str(int(is->referenceRule())));
                return;
            }
            std::string heading = is->referenceHeading();
            std::string url = is->url();
            (void)heading;
            if (url.empty() && is->referenceRule() != Issue::ReferenceRule::UNDEFINED) {
                bad("empty-url", "issue(" + str(i) + ") rule=" + str(int(is->referenceRule())));
                return;
            }
            auto item = is->item();
            if (item == nullptr) {
                bad("null-item", "issue(" + str(i) + ")");
                return;
            }
            bool hasAccessor = false;
            bool present = typedObjectPresent(item, hasAccessor);
            int nn = nonNullAccessors(item);
            if (hasAccessor && !present) {
                ctx.count("c15_typed_item_without_object");
                bad("item-type-mismatch", "issue(" + str(i) + ") item type " + cellmlElementTypeAsString(item->type()) + " but its accessor returns null; desc=" + is->description());
                return;
            }
            if (nn != (hasAccessor ? 1 : 0)) {
                bad("item-type-mismatch", "issue(" + str(i) + ") item type " + cellmlElementTypeAsString(item->type()) + " with " + str(nn) + " non-null accessors");
                return;
            }
            ctx.count(std::string("c15_level") + str(lvl) + "_" + service);
        }
        if (errs.size() != ne || warns.size() != nw || msgs.size() != nm) {
            bad("level-count-mismatch", "by level: " + str(errs.size()) + "/" + str(warns.size()) + "/" + str(msgs.size()) + " vs counts " + str(ne) + "/" + str(nw) + "/" + str(nm));
            return;
        }
        for (size_t i = 0; i < ne; ++i) {
            if (logger->error(i) != errs[i]) {
                bad("level-index-misaligned", "error(" + str(i) + ") is not the " + str(i) + "-th error-level issue");
                return;
            }
        }
        for (size_t i = 0; i < nw; ++i) {
            if (logger->warning(i) != warns[i]) {
                bad("level-index-misaligned", "warning(" + str(i) + ") is not the " + str(i) + "-th warning-level issue");
                return;
            }
        }
        for (size_t i = 0; i < nm; ++i) {
            if (logger->message(i) != msgs[i]) {
                bad("level-index-misaligned", "message(" + str(i) + ") is not the " + str(i) + "-th message-level issue");
                return;
            }
        }
        const size_t past[] = {0, 1, size_t(-1)};
        for (size_t k = 0; k < 3; ++k) {
            size_t d = past[k];
            bool oob = (d == size_t(-1));
            if ((logger->issue(oob ? d : n + d) != nullptr) || (logger->error(oob ? d : ne + d) != nullptr)
                || (logger->warning(oob ? d : nw + d) != nullptr) || (logger->message(oob ? d : nm + d) != nullptr)) {
                bad("out-of-range-not-null", "an accessor returned an issue for an index past the end (+" + str(k) + ")");
                return;
            }
        }
    } catch (const std::exception &e) {
        bad("accessor-threw", std::string("exception from an issue accessor: ") + e.what());
        return;
    }
    if (failed) {
        ctx.count("c15_failed_calls_checked");
        if (n == 0) {
            bad("failure-unexplained", "the call failed but the issue list is empty");
            return;
        }
    }
    if (ne > 0 && (nw > 0 || nm > 0)) {
        ctx.count("c15_mixed_levels_seen");
    }
}

} // namespace sim
