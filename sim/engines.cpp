// Engine registry: one line per engine that exists.
void registerEquivEngine();
void registerImportEngine();
void registerAnnotEngine();

extern "C" void cellsimRegisterEngines()
{
    registerEquivEngine();
    registerImportEngine();
    registerAnnotEngine();
}
