// Engine registry: one line per engine that exists.
void registerEquivEngine();
void registerImportEngine();
void registerAnnotEngine();
void registerPurityEngine();

extern "C" void cellsimRegisterEngines()
{
    registerEquivEngine();
    registerImportEngine();
    registerAnnotEngine();
    registerPurityEngine();
}
