// Engine registry: one line per engine that exists.
void registerEquivEngine();

extern "C" void cellsimRegisterEngines()
{
    registerEquivEngine();
}
