// Engine registry: one line per engine that exists.
void registerEquivEngine();
void registerImportEngine();
void registerAnnotEngine();
void registerPurityEngine();
void registerHistoryEngine();

extern "C" void cellsimRegisterEngines()
{
    registerEquivEngine();
    registerImportEngine();
    registerAnnotEngine();
    registerPurityEngine();
    registerHistoryEngine();
}
