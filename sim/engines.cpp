// Engine registry: one line per engine that exists.
void registerEquivEngine();
void registerImportEngine();

extern "C" void cellsimRegisterEngines()
{
    registerEquivEngine();
    registerImportEngine();
}
