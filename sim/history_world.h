// Engine `history`, part 1: the universe of handles, the snapshot taken through public getters, the
// liveness closure over strong edges, snapshot comparison, the global invariants and structural keys.
#pragma once

#include <algorithm>
#include <map>
#include <set>
#include <sstream>

#include <libcellml/module/libcellml>

#include "kernel.h"

namespace hist {

using namespace libcellml;
using namespace sim;

enum Kind { K_MODEL, K_COMP, K_VAR, K_UNITS, K_RESET, K_IMP, NKIND };
static const char *const KIND_NAME[NKIND] = {"model", "component", "variable", "units", "reset", "import"};
enum Fam { F_COMP, F_VAR, F_RESET, F_UNITS, NFAM }; // families of children a container lists
static const Kind FAM_KIND[NFAM] = {K_COMP, K_VAR, K_RESET, K_UNITS};
static const char *const FAM_NAME[NFAM] = {"components", "variables", "resets", "units"};
const int NONE = -1, FOREIGN = -2, ANY = -3;

inline int famOf(Kind k)
{
    return k == K_COMP ? F_COMP : k == K_VAR ? F_VAR : k == K_RESET ? F_RESET : k == K_UNITS ? F_UNITS : -1;
}

inline std::string hid(int id)
{
    return id == NONE ? "none" : id == FOREIGN ? "foreign" : id == ANY ? "any" : "h" + str(id);
}

// ---------------------------------------------------------------- handles

struct Handle
{
    Kind kind = K_MODEL;
    EntityPtr strong; // the simulator's own reference; DROP empties it
    std::weak_ptr<Entity> weak; // observes expiry
    int group = 0; // 0: built by the simulator, g > 0: produced by the g-th clone()
};

struct World
{
    std::vector<Handle> h;
    long freshCount = 0, cloneCount = 0;

    int add(Kind k, const EntityPtr &e, bool hold = true, int group = 0)
    {
        Handle x;
        x.kind = k;
        x.weak = e;
        if (hold) {
            x.strong = e;
        }
        x.group = group;
        h.push_back(x);
        return int(h.size()) - 1;
    }
    EntityPtr ent(int id) const { return id < 0 ? nullptr : h[size_t(id)].weak.lock(); }
    template<class T>
    std::shared_ptr<T> as(int id) const
    {
        return std::dynamic_pointer_cast<T>(ent(id));
    }
    int idOf(const EntityPtr &e) const
    {
        if (e == nullptr) {
            return NONE;
        }
        for (size_t i = 0; i < h.size(); ++i) {
            auto p = h[i].weak.lock();
            if (p != nullptr && p.get() == e.get()) {
                return int(i);
            }
        }
        return FOREIGN;
    }
    std::vector<int> live(unsigned kindMask) const
    {
        std::vector<int> out;
        for (size_t i = 0; i < h.size(); ++i) {
            if (((kindMask >> h[i].kind) & 1u) != 0 && !h[i].weak.expired()) {
                out.push_back(int(i));
            }
        }
        return out;
    }
    std::vector<int> held(unsigned kindMask) const
    {
        std::vector<int> out;
        for (size_t i = 0; i < h.size(); ++i) {
            if (((kindMask >> h[i].kind) & 1u) != 0 && h[i].strong != nullptr) {
                out.push_back(int(i));
            }
        }
        return out;
    }
    std::vector<bool> heldFlags() const
    {
        std::vector<bool> f(h.size());
        for (size_t i = 0; i < h.size(); ++i) {
            f[i] = h[i].strong != nullptr;
        }
        return f;
    }
};

// ---------------------------------------------------------------- snapshot

struct ES // what the public getters say about one entity
{
    bool alive = false;
    int parent = NONE;
    std::vector<int> kids[NFAM];
    std::vector<int> eqs; // sorted
    bool eqNull = false; // equivalentVariable(i) was null for some i < equivalentVariableCount()
    int unitsRef = NONE, rvar = NONE, rtest = NONE, imp = NONE, impModel = NONE;
    std::string name, digest;
    bool emptyAttrs = false; // what Model::clean() looks at
};
typedef std::vector<ES> Snap;

inline std::string dnum(double d)
{
    char b[40];
    snprintf(b, sizeof b, "%.17g", d);
    return b;
}

inline std::string unitRows(const UnitsPtr &u)
{
    std::string s;
    for (size_t i = 0; i < u->unitCount(); ++i) {
        std::string ref, prefix, id;
        double e = 0, m = 0;
        u->unitAttributes(i, ref, prefix, e, m, id);
        s += "[" + ref + "," + prefix + "," + dnum(e) + "," + dnum(m) + "," + id + "]";
    }
    return s;
}

inline Snap snapshot(const World &w)
{
    size_t n = w.h.size();
    std::vector<EntityPtr> lock(n);
    std::map<const Entity *, int> ids;
    for (size_t i = 0; i < n; ++i) {
        lock[i] = w.h[i].weak.lock();
        if (lock[i] != nullptr) {
            ids[lock[i].get()] = int(i);
        }
    }
    auto idOf = [&](const EntityPtr &e) -> int {
        if (e == nullptr) {
            return NONE;
        }
        auto it = ids.find(e.get());
        return it == ids.end() ? FOREIGN : it->second;
    };
    Snap s(n);
    for (size_t i = 0; i < n; ++i) {
        if (lock[i] == nullptr) {
            continue;
        }
        ES &e = s[i];
        e.alive = true;
        switch (w.h[i].kind) {
        case K_MODEL: {
            auto m = std::dynamic_pointer_cast<Model>(lock[i]);
            for (size_t k = 0; k < m->componentCount(); ++k) {
                e.kids[F_COMP].push_back(idOf(m->component(k)));
            }
            for (size_t k = 0; k < m->unitsCount(); ++k) {
                e.kids[F_UNITS].push_back(idOf(m->units(k)));
            }
            e.name = m->name();
            e.digest = "name=" + m->name() + "|id=" + m->id() + "|enc=" + m->encapsulationId();
            break;
        }
        case K_COMP: {
            auto c = std::dynamic_pointer_cast<Component>(lock[i]);
            e.parent = idOf(c->parent());
            for (size_t k = 0; k < c->componentCount(); ++k) {
                e.kids[F_COMP].push_back(idOf(c->component(k)));
            }
            for (size_t k = 0; k < c->variableCount(); ++k) {
                e.kids[F_VAR].push_back(idOf(c->variable(k)));
            }
            for (size_t k = 0; k < c->resetCount(); ++k) {
                e.kids[F_RESET].push_back(idOf(c->reset(k)));
            }
            e.imp = idOf(c->importSource());
            e.name = c->name();
            e.digest = "name=" + c->name() + "|id=" + c->id() + "|enc=" + c->encapsulationId() + "|math=" + c->math() + "|ref=" + c->importReference();
            e.emptyAttrs = c->name().empty() && c->id().empty() && c->math().empty() && !c->isImport();
            break;
        }
        case K_VAR: {
            auto v = std::dynamic_pointer_cast<Variable>(lock[i]);
            e.parent = idOf(v->parent());
            size_t cnt = v->equivalentVariableCount();
            for (size_t k = 0; k < cnt; ++k) {
                auto q = v->equivalentVariable(k);
                if (q == nullptr) {
                    e.eqNull = true;
                } else {
                    e.eqs.push_back(idOf(q));
                }
            }
            std::sort(e.eqs.begin(), e.eqs.end());
            auto u = v->units();
            e.unitsRef = idOf(u);
            e.name = v->name();
            e.digest = "name=" + v->name() + "|id=" + v->id() + "|init=" + v->initialValue() + "|iface=" + v->interfaceType()
                       + (e.unitsRef == FOREIGN ? "|units~" + u->name() : "");
            break;
        }
        case K_UNITS: {
            auto u = std::dynamic_pointer_cast<Units>(lock[i]);
            e.parent = idOf(u->parent());
            e.imp = idOf(u->importSource());
            e.name = u->name();
            e.digest = "name=" + u->name() + "|id=" + u->id() + "|ref=" + u->importReference() + "|" + unitRows(u);
            e.emptyAttrs = !u->isImport() && u->name().empty() && u->id().empty() && u->unitCount() == 0;
            break;
        }
        case K_RESET: {
            auto r = std::dynamic_pointer_cast<Reset>(lock[i]);
            e.parent = idOf(r->parent());
            e.rvar = idOf(r->variable());
            e.rtest = idOf(r->testVariable());
            e.digest = "id=" + r->id() + "|order=" + str(r->order()) + "|set=" + str(r->isOrderSet() ? 1 : 0) + "|tv=" + r->testValue() + "|tvid=" + r->testValueId()
                       + "|rv=" + r->resetValue() + "|rvid=" + r->resetValueId();
            break;
        }
        default: {
            auto is = std::dynamic_pointer_cast<ImportSource>(lock[i]);
            e.impModel = idOf(is->model());
            e.digest = "url=" + is->url() + "|id=" + is->id();
            break;
        }
        }
    }
    return s;
}

inline std::string snapText(const Snap &s)
{
    std::ostringstream o;
    for (size_t i = 0; i < s.size(); ++i) {
        const ES &e = s[i];
        if (!e.alive) {
            o << i << ":dead\n";
            continue;
        }
        o << i << ":p" << e.parent;
        for (int f = 0; f < NFAM; ++f) {
            o << " [";
            for (int k : e.kids[f]) {
                o << k << ",";
            }
            o << "]";
        }
        o << " e";
        for (int k : e.eqs) {
            o << k << ",";
        }
        o << " u" << e.unitsRef << " r" << e.rvar << "," << e.rtest << " i" << e.imp << "," << e.impModel << " " << e.digest << "\n";
    }
    return o.str();
}

// What must be left when only `held` handles are referenced from outside: everything reachable over strong edges
// (container -> children, variable -> units, reset -> variables, component/units -> import source); parents,
// equivalences and ImportSource -> model are weak and simply stop yielding what died.
inline void applyLiveness(Snap &s, const std::vector<bool> &held)
{
    size_t n = s.size();
    std::vector<bool> reach(n, false);
    std::vector<int> stack;
    for (size_t i = 0; i < n; ++i) {
        if (i < held.size() && held[i] && s[i].alive) {
            reach[i] = true;
            stack.push_back(int(i));
        }
    }
    auto visit = [&](int k) {
        if (k >= 0 && size_t(k) < n && s[size_t(k)].alive && !reach[size_t(k)]) {
            reach[size_t(k)] = true;
            stack.push_back(k);
        }
    };
    while (!stack.empty()) {
        int i = stack.back();
        stack.pop_back();
        const ES &e = s[size_t(i)];
        for (int f = 0; f < NFAM; ++f) {
            for (int k : e.kids[f]) {
                visit(k);
            }
        }
        visit(e.unitsRef);
        visit(e.rvar);
        visit(e.rtest);
        visit(e.imp);
    }
    for (size_t i = 0; i < n; ++i) {
        if (s[i].alive && !reach[i]) {
            s[i] = ES();
        }
    }
    auto dead = [&](int k) { return k >= 0 && !s[size_t(k)].alive; };
    for (auto &e : s) {
        if (!e.alive) {
            continue;
        }
        if (dead(e.parent)) {
            e.parent = NONE;
        }
        if (dead(e.impModel)) {
            e.impModel = NONE;
        }
        e.eqs.erase(std::remove_if(e.eqs.begin(), e.eqs.end(), dead), e.eqs.end());
    }
}

inline bool sameRef(int expected, int observed)
{
    return expected == ANY || expected == observed;
}

inline bool sameES(const ES &x, const ES &o) // x: expected (may hold wildcards)
{
    if (x.alive != o.alive) {
        return false;
    }
    if (!x.alive) {
        return true;
    }
    for (int f = 0; f < NFAM; ++f) {
        if (x.kids[f] != o.kids[f]) {
            return false;
        }
    }
    return x.parent == o.parent && x.eqs == o.eqs && sameRef(x.unitsRef, o.unitsRef) && x.rvar == o.rvar && x.rtest == o.rtest && x.imp == o.imp
           && sameRef(x.impModel, o.impModel) && (x.digest == "*" || x.digest == o.digest);
}

inline std::string listText(const std::vector<int> &v)
{
    std::string s = "[";
    for (size_t i = 0; i < v.size(); ++i) {
        s += (i ? "," : "") + hid(v[i]);
    }
    return s + "]";
}

inline std::string label(const World &w, const Snap &s, int id)
{
    if (id < 0) {
        return hid(id);
    }
    std::string l = hid(id) + "(" + KIND_NAME[w.h[size_t(id)].kind];
    if (size_t(id) < s.size() && s[size_t(id)].alive && !s[size_t(id)].name.empty()) {
        l += " '" + s[size_t(id)].name + "'";
    }
    return l + ")";
}

// Handles whose entries differ; `desc` receives a readable account of the first few differences.
inline std::vector<int> diffSnap(const World &w, const Snap &exp, const Snap &obs, std::string *desc = nullptr)
{
    std::vector<int> out;
    int described = 0;
    for (size_t i = 0; i < obs.size(); ++i) {
        ES x = i < exp.size() ? exp[i] : ES();
        const ES &o = obs[i];
        if (sameES(x, o)) {
            continue;
        }
        out.push_back(int(i));
        if (desc == nullptr || described >= 4) {
            continue;
        }
        ++described;
        std::string l = label(w, x.alive ? exp : obs, int(i));
        if (x.alive != o.alive) {
            *desc += l + (x.alive ? " should be alive but has been destroyed; " : " should have been destroyed but is still alive; ");
            continue;
        }
        if (x.parent != o.parent) {
            *desc += l + ".parent() should be " + hid(x.parent) + " but is " + hid(o.parent) + "; ";
        }
        for (int f = 0; f < NFAM; ++f) {
            if (x.kids[f] != o.kids[f]) {
                *desc += l + " should list " + FAM_NAME[f] + " " + listText(x.kids[f]) + " but lists " + listText(o.kids[f]) + "; ";
            }
        }
        if (x.eqs != o.eqs) {
            *desc += l + " should have equivalent variables " + listText(x.eqs) + " but has " + listText(o.eqs) + "; ";
        }
        if (!sameRef(x.unitsRef, o.unitsRef)) {
            *desc += l + ".units() should be " + hid(x.unitsRef) + " but is " + hid(o.unitsRef) + "; ";
        }
        if (x.rvar != o.rvar || x.rtest != o.rtest) {
            *desc += l + " variable/testVariable should be " + hid(x.rvar) + "/" + hid(x.rtest) + " but are " + hid(o.rvar) + "/" + hid(o.rtest) + "; ";
        }
        if (x.imp != o.imp) {
            *desc += l + ".importSource() should be " + hid(x.imp) + " but is " + hid(o.imp) + "; ";
        }
        if (!sameRef(x.impModel, o.impModel)) {
            *desc += l + ".model() should be " + hid(x.impModel) + " but is " + hid(o.impModel) + "; ";
        }
        if (x.digest != "*" && x.digest != o.digest) {
            *desc += l + " attributes should be {" + x.digest + "} but are {" + o.digest + "}; ";
        }
    }
    return out;
}

// ---------------------------------------------------------------- global invariants (C09, first sentence)

// Returns the violation class ("" if all hold) and fills `detail`.
inline std::string checkInvariants(const World &w, const Snap &s, std::string &detail)
{
    size_t n = s.size();
    std::vector<int> listedBy(n, NONE);
    for (size_t i = 0; i < n; ++i) {
        if (!s[i].alive) {
            continue;
        }
        for (int f = 0; f < NFAM; ++f) {
            std::set<int> seen;
            for (int k : s[i].kids[f]) {
                if (k < 0) {
                    continue;
                }
                if (!seen.insert(k).second) {
                    detail = label(w, s, int(i)) + " lists " + label(w, s, k) + " twice among its " + FAM_NAME[f];
                    return "listed-twice";
                }
                if (listedBy[size_t(k)] != NONE && listedBy[size_t(k)] != int(i)) {
                    detail = label(w, s, k) + " is listed by " + label(w, s, listedBy[size_t(k)]) + " and by " + label(w, s, int(i));
                    return "listed-by-two-containers";
                }
                listedBy[size_t(k)] = int(i);
            }
        }
    }
    for (size_t i = 0; i < n; ++i) {
        if (!s[i].alive) {
            continue;
        }
        for (int f = 0; f < NFAM; ++f) {
            for (int k : s[i].kids[f]) {
                if (k >= 0 && s[size_t(k)].parent != int(i)) {
                    detail = label(w, s, int(i)) + " lists " + label(w, s, k) + ", whose parent() is " + label(w, s, s[size_t(k)].parent);
                    return "child-parent-mismatch";
                }
            }
        }
    }
    for (size_t i = 0; i < n; ++i) {
        if (!s[i].alive || w.h[i].kind != K_COMP) {
            continue;
        }
        int p = int(i);
        size_t hops = 0;
        while (p >= 0 && hops <= n + 1) {
            p = s[size_t(p)].parent;
            ++hops;
            if (p == int(i)) {
                detail = label(w, s, int(i)) + " is its own ancestor (" + str(hops) + " parent() hops)";
                return "hierarchy-cycle";
            }
        }
        if (hops > n + 1) {
            detail = "walking parent() from " + label(w, s, int(i)) + " does not terminate";
            return "hierarchy-cycle";
        }
    }
    for (size_t i = 0; i < n; ++i) {
        if (!s[i].alive || w.h[i].kind != K_VAR) {
            continue;
        }
        if (s[i].eqNull) {
            detail = label(w, s, int(i)) + ".equivalentVariable(i) is null for an i below equivalentVariableCount()";
            return "equivalence-yields-null";
        }
        for (int k : s[i].eqs) {
            if (k < 0) {
                continue;
            }
            const auto &back = s[size_t(k)].eqs;
            if (std::find(back.begin(), back.end(), int(i)) == back.end()) {
                detail = label(w, s, int(i)) + " lists " + label(w, s, k) + " as equivalent but not the other way round";
                return "equivalence-asymmetric";
            }
        }
    }
    return "";
}

// ---------------------------------------------------------------- structural keys (never equals())

inline std::string skeyOf(const EntityPtr &e, int depth = 0);

template<class F>
std::string sortedKeys(size_t count, F item, int depth)
{
    std::vector<std::string> ks;
    for (size_t i = 0; i < count; ++i) {
        ks.push_back(skeyOf(item(i), depth + 1));
    }
    std::sort(ks.begin(), ks.end());
    std::string s = "{";
    for (auto &k : ks) {
        s += k + ";";
    }
    return s + "}";
}

inline std::string importKey(const ImportedEntity &ie)
{
    return (ie.isImport() ? "I(" + ie.importSource()->url() + "," + ie.importSource()->id() + ")" : std::string("-")) + "," + ie.importReference();
}

// Two entities are structurally equal iff their keys are equal: own attributes plus the multiset of the children's
// keys (order of children is not structure), the key of a variable's units and of a reset's variables.
inline std::string skeyOf(const EntityPtr &e, int depth)
{
    if (e == nullptr) {
        return "null";
    }
    if (depth > 12) {
        return "deep";
    }
    if (auto m = std::dynamic_pointer_cast<Model>(e)) {
        return "M(" + m->name() + "," + m->id() + "," + m->encapsulationId() + sortedKeys(m->unitsCount(), [&](size_t i) { return m->units(i); }, depth)
               + sortedKeys(m->componentCount(), [&](size_t i) { return m->component(i); }, depth) + ")";
    }
    if (auto c = std::dynamic_pointer_cast<Component>(e)) {
        return "C(" + c->name() + "," + c->id() + "," + c->encapsulationId() + "," + c->math() + "," + importKey(*c)
               + sortedKeys(c->variableCount(), [&](size_t i) { return c->variable(i); }, depth) + sortedKeys(c->resetCount(), [&](size_t i) { return c->reset(i); }, depth)
               + sortedKeys(c->componentCount(), [&](size_t i) { return c->component(i); }, depth) + ")";
    }
    if (auto v = std::dynamic_pointer_cast<Variable>(e)) {
        return "V(" + v->name() + "," + v->id() + "," + v->initialValue() + "," + v->interfaceType() + "," + skeyOf(v->units(), depth + 1) + ")";
    }
    if (auto u = std::dynamic_pointer_cast<Units>(e)) {
        std::vector<std::string> rows;
        for (size_t i = 0; i < u->unitCount(); ++i) {
            std::string ref, prefix, id;
            double ex = 0, mu = 0;
            u->unitAttributes(i, ref, prefix, ex, mu, id);
            rows.push_back(ref + "," + prefix + "," + dnum(ex) + "," + dnum(mu) + "," + id);
        }
        std::sort(rows.begin(), rows.end());
        std::string s = "U(" + u->name() + "," + u->id() + "," + importKey(*u);
        for (auto &r : rows) {
            s += "[" + r + "]";
        }
        return s + ")";
    }
    if (auto r = std::dynamic_pointer_cast<Reset>(e)) {
        return "R(" + r->id() + "," + str(r->order()) + "," + r->testValue() + "," + r->testValueId() + "," + r->resetValue() + "," + r->resetValueId() + ","
               + skeyOf(r->variable(), depth + 1) + "," + skeyOf(r->testVariable(), depth + 1) + ")";
    }
    if (auto is = std::dynamic_pointer_cast<ImportSource>(e)) {
        return "I(" + is->url() + "," + is->id() + ")";
    }
    return "?";
}

// A new parentless entity with the same own attributes as `e` (children are not copied), built with setters only.
inline EntityPtr twinOf(const EntityPtr &e)
{
    if (auto c = std::dynamic_pointer_cast<Component>(e)) {
        auto t = Component::create(c->name());
        t->setId(c->id());
        t->setEncapsulationId(c->encapsulationId());
        t->setMath(c->math());
        if (c->isImport()) {
            t->setImportSource(c->importSource());
        }
        t->setImportReference(c->importReference());
        return t;
    }
    if (auto v = std::dynamic_pointer_cast<Variable>(e)) {
        auto t = Variable::create(v->name());
        t->setId(v->id());
        t->setInitialValue(v->initialValue());
        t->setInterfaceType(v->interfaceType());
        if (v->units() != nullptr) {
            t->setUnits(v->units());
        }
        return t;
    }
    if (auto u = std::dynamic_pointer_cast<Units>(e)) {
        auto t = Units::create(u->name());
        t->setId(u->id());
        if (u->isImport()) {
            t->setImportSource(u->importSource());
        }
        t->setImportReference(u->importReference());
        for (size_t i = 0; i < u->unitCount(); ++i) {
            std::string ref, prefix, id;
            double ex = 0, mu = 0;
            u->unitAttributes(i, ref, prefix, ex, mu, id);
            t->addUnit(ref, prefix, ex, mu, id);
        }
        return t;
    }
    if (auto r = std::dynamic_pointer_cast<Reset>(e)) {
        auto t = Reset::create();
        t->setId(r->id());
        if (r->isOrderSet()) {
            t->setOrder(r->order());
        }
        t->setVariable(r->variable());
        t->setTestVariable(r->testVariable());
        t->setTestValue(r->testValue());
        t->setTestValueId(r->testValueId());
        t->setResetValue(r->resetValue());
        t->setResetValueId(r->resetValueId());
        return t;
    }
    return nullptr;
}

} // namespace hist
