#include "dump.h"

#include <algorithm>
#include <map>
#include <sstream>
#include <vector>

using namespace libcellml;

namespace sim {

std::string esc(const std::string &s)
{
    std::string o;
    for (unsigned char c : s) {
        if (c == '\n') {
            o += "\\n";
        } else if (c == '\\') {
            o += "\\\\";
        } else if (c == '|') {
            o += "\\p";
        } else if (c < 0x20) {
            char b[8];
            snprintf(b, sizeof b, "\\x%02x", c);
            o += b;
        } else {
            o += char(c);
        }
    }
    return o;
}

std::string normaliseWs(const std::string &s)
{
    // drop all whitespace that is adjacent to a tag boundary, collapse the rest
    std::string o;
    bool pendingSpace = false;
    for (unsigned char c : s) {
        if (c == ' ' || c == '\n' || c == '\t' || c == '\r') {
            pendingSpace = true;
            continue;
        }
        if (pendingSpace) {
            if (!o.empty() && o.back() != '>' && c != '<') {
                o += ' ';
            }
            pendingSpace = false;
        }
        o += char(c);
    }
    return o;
}

namespace {

struct Walker
{
    const DumpOpts &o;
    std::ostringstream out;
    std::map<const Variable *, std::string> varPath;
    std::map<const ImportSource *, int> importIds;
    std::map<const Units *, std::string> modelUnits;

    explicit Walker(const DumpOpts &opts)
        : o(opts)
    {
    }

    std::string math(const std::string &m) const
    {
        return esc(o.normaliseMathWhitespace ? normaliseWs(m) : m);
    }

    void indexComponent(const ComponentPtr &c, const std::string &path)
    {
        for (size_t i = 0; i < c->variableCount(); ++i) {
            auto v = c->variable(i);
            if (v != nullptr && varPath.count(v.get()) == 0) {
                varPath[v.get()] = path + "/v" + std::to_string(i);
            }
        }
        for (size_t i = 0; i < c->componentCount(); ++i) {
            auto k = c->component(i);
            if (k != nullptr) {
                indexComponent(k, path + "." + std::to_string(i));
            }
        }
    }

    std::string varRef(const VariablePtr &v)
    {
        if (v == nullptr) {
            return "null";
        }
        auto it = varPath.find(v.get());
        if (it != varPath.end()) {
            return it->second;
        }
        return "ext(" + esc(v->name()) + ")";
    }

    std::string importOf(const ImportedEntity &e)
    {
        if (!e.isImport()) {
            std::string s;
            if (!e.importReference().empty()) {
                s = " importref=" + esc(e.importReference());
            }
            return s;
        }
        auto is = e.importSource();
        int id;
        auto it = importIds.find(is.get());
        if (it == importIds.end()) {
            id = int(importIds.size());
            importIds[is.get()] = id;
        } else {
            id = it->second;
        }
        std::string s = " import[src" + std::to_string(id) + " url=" + esc(is->url()) + " id=" + esc(is->id()) + " ref=" + esc(e.importReference());
        if (o.importResolved) {
            s += is->hasModel() ? " resolved" : " unresolved";
        }
        return s + "]";
    }

    void units(const UnitsPtr &u, const std::string &indent, const ParentedEntityPtr &expectedParent, bool checkParent)
    {
        out << indent << "units name=" << esc(u->name()) << " id=" << esc(u->id()) << importOf(*u);
        if (checkParent && o.parents) {
            out << " parent=" << (u->parent() == expectedParent ? "ok" : "BAD");
        }
        out << "\n";
        for (size_t i = 0; i < u->unitCount(); ++i) {
            std::string ref, prefix, id;
            double e, m;
            u->unitAttributes(i, ref, prefix, e, m, id);
            char b[96];
            snprintf(b, sizeof b, " exp=%.17g mult=%.17g", e, m);
            out << indent << " unit ref=" << esc(ref) << " prefix=" << esc(prefix) << b << " id=" << esc(id) << "\n";
        }
    }

    void variable(const VariablePtr &v, const std::string &indent, const ParentedEntityPtr &expectedParent, bool checkParent, const ModelPtr &model)
    {
        out << indent << "var name=" << esc(v->name()) << " id=" << esc(v->id());
        auto u = v->units();
        if (u == nullptr) {
            out << " units=none";
        } else {
            out << " units=" << esc(u->name());
            if (model != nullptr) {
                out << (modelUnits.count(u.get()) != 0 ? " linked" : " unlinked");
            }
        }
        out << " init=" << esc(v->initialValue()) << " iface=" << esc(v->interfaceType());
        if (checkParent && o.parents) {
            out << " parent=" << (v->parent() == expectedParent ? "ok" : "BAD");
        }
        out << "\n";
        std::vector<std::string> eqs;
        for (size_t i = 0; i < v->equivalentVariableCount(); ++i) {
            auto e = v->equivalentVariable(i);
            std::string s = indent + " eq -> " + varRef(e);
            if (e != nullptr) {
                s += " mid=" + esc(Variable::equivalenceMappingId(v, e)) + " cid=" + esc(Variable::equivalenceConnectionId(v, e));
            }
            eqs.push_back(s);
        }
        if (o.sortEquivalences) {
            std::sort(eqs.begin(), eqs.end());
        }
        for (auto &s : eqs) {
            out << s << "\n";
        }
    }

    void reset(const ResetPtr &r, const std::string &indent, const ParentedEntityPtr &expectedParent, bool checkParent)
    {
        out << indent << "reset id=" << esc(r->id()) << " orderSet=" << (r->isOrderSet() ? 1 : 0) << " order=" << r->order()
            << " var=" << varRef(r->variable()) << " testvar=" << varRef(r->testVariable())
            << " tvid=" << esc(r->testValueId()) << " tv=" << math(r->testValue())
            << " rvid=" << esc(r->resetValueId()) << " rv=" << math(r->resetValue());
        if (checkParent && o.parents) {
            out << " parent=" << (r->parent() == expectedParent ? "ok" : "BAD");
        }
        out << "\n";
    }

    void component(const ComponentPtr &c, const std::string &indent, const ParentedEntityPtr &expectedParent, bool checkParent, const ModelPtr &model, int depth)
    {
        out << indent << "component name=" << esc(c->name()) << " id=" << esc(c->id()) << " encId=" << esc(c->encapsulationId()) << importOf(*c);
        if (checkParent && o.parents) {
            out << " parent=" << (c->parent() == expectedParent ? "ok" : "BAD");
        }
        out << " math=" << math(c->math()) << "\n";
        for (size_t i = 0; i < c->variableCount(); ++i) {
            variable(c->variable(i), indent + " ", c, true, model);
        }
        for (size_t i = 0; i < c->resetCount(); ++i) {
            reset(c->reset(i), indent + " ", c, true);
        }
        if (depth > 64) {
            out << indent << " ...depth limit\n";
            return;
        }
        for (size_t i = 0; i < c->componentCount(); ++i) {
            component(c->component(i), indent + " ", c, true, model, depth + 1);
        }
    }
};

} // namespace

std::string dumpModel(const ModelPtr &model, const DumpOpts &o)
{
    if (model == nullptr) {
        return "null-model\n";
    }
    Walker w(o);
    for (size_t i = 0; i < model->componentCount(); ++i) {
        auto c = model->component(i);
        if (c != nullptr) {
            w.indexComponent(c, "c" + std::to_string(i));
        }
    }
    for (size_t i = 0; i < model->unitsCount(); ++i) {
        auto u = model->units(i);
        if (u != nullptr) {
            w.modelUnits[u.get()] = u->name();
        }
    }
    w.out << "model name=" << esc(model->name()) << " id=" << esc(model->id()) << " encId=" << esc(model->encapsulationId()) << "\n";
    for (size_t i = 0; i < model->unitsCount(); ++i) {
        w.units(model->units(i), " ", model, true);
    }
    for (size_t i = 0; i < model->componentCount(); ++i) {
        w.component(model->component(i), " ", model, true, model, 0);
    }
    return w.out.str();
}

std::string dumpComponent(const ComponentPtr &c, const DumpOpts &o)
{
    if (c == nullptr) {
        return "null-component\n";
    }
    Walker w(o);
    w.indexComponent(c, "c");
    w.component(c, "", nullptr, false, nullptr, 0);
    return w.out.str();
}

std::string dumpUnits(const UnitsPtr &u, const DumpOpts &o)
{
    if (u == nullptr) {
        return "null-units\n";
    }
    Walker w(o);
    w.units(u, "", nullptr, false);
    return w.out.str();
}

std::string dumpVariable(const VariablePtr &v, const DumpOpts &o)
{
    if (v == nullptr) {
        return "null-variable\n";
    }
    Walker w(o);
    w.variable(v, "", nullptr, false, nullptr);
    return w.out.str();
}

std::string dumpReset(const ResetPtr &r, const DumpOpts &o)
{
    if (r == nullptr) {
        return "null-reset\n";
    }
    Walker w(o);
    w.reset(r, "", nullptr, false);
    return w.out.str();
}

std::string itemString(const AnyCellmlElementPtr &item)
{
    if (item == nullptr) {
        return "noitem";
    }
    auto t = item->type();
    std::string s = cellmlElementTypeAsString(t);
    switch (t) {
    case CellmlElementType::COMPONENT:
    case CellmlElementType::COMPONENT_REF:
        if (item->component() != nullptr) {
            s += ":" + esc(item->component()->name());
        }
        break;
    case CellmlElementType::MODEL:
    case CellmlElementType::ENCAPSULATION:
        if (item->model() != nullptr) {
            s += ":" + esc(item->model()->name());
        }
        break;
    case CellmlElementType::UNITS:
        if (item->units() != nullptr) {
            s += ":" + esc(item->units()->name());
        }
        break;
    case CellmlElementType::VARIABLE:
        if (item->variable() != nullptr) {
            s += ":" + esc(item->variable()->name());
        }
        break;
    case CellmlElementType::IMPORT:
        if (item->importSource() != nullptr) {
            s += ":" + esc(item->importSource()->url());
        }
        break;
    case CellmlElementType::UNIT:
        if (item->unitsItem() != nullptr && item->unitsItem()->units() != nullptr) {
            s += ":" + esc(item->unitsItem()->units()->name()) + "#" + std::to_string(item->unitsItem()->index());
        }
        break;
    case CellmlElementType::CONNECTION:
    case CellmlElementType::MAP_VARIABLES:
        if (item->variablePair() != nullptr) {
            auto p = item->variablePair();
            s += ":" + (p->variable1() ? esc(p->variable1()->name()) : std::string("null")) + "~" + (p->variable2() ? esc(p->variable2()->name()) : std::string("null"));
        }
        break;
    default:
        break;
    }
    return s;
}

std::string dumpIssues(const LoggerPtr &logger, bool withItems)
{
    std::ostringstream out;
    for (size_t i = 0; i < logger->issueCount(); ++i) {
        auto is = logger->issue(i);
        if (is == nullptr) {
            out << "issue NULL\n";
            continue;
        }
        out << "issue level=" << int(is->level()) << " rule=" << int(is->referenceRule());
        if (withItems) {
            out << " item=" << itemString(is->item());
        }
        out << " desc=" << esc(is->description()) << "\n";
    }
    return out.str();
}

std::string dumpAnalyserModel(const AnalyserModelPtr &am)
{
    if (am == nullptr) {
        return "null-analysermodel\n";
    }
    std::ostringstream out;
    out << "analysermodel type=" << AnalyserModel::typeAsString(am->type()) << " valid=" << am->isValid() << " ext=" << am->hasExternalVariables() << "\n";
    std::map<const AnalyserEquation *, size_t> eqIndex;
    auto eqs = am->equations();
    for (size_t i = 0; i < eqs.size(); ++i) {
        eqIndex[eqs[i].get()] = i;
    }
    auto var = [&](const AnalyserVariablePtr &v, const char *kind) {
        if (v == nullptr) {
            out << " " << kind << " null\n";
            return;
        }
        auto cv = v->variable();
        std::string comp = "?";
        if (cv != nullptr && cv->parent() != nullptr) {
            comp = std::dynamic_pointer_cast<Component>(cv->parent()) ? esc(std::dynamic_pointer_cast<Component>(cv->parent())->name()) : "?";
        }
        out << " " << kind << " index=" << v->index() << " type=" << AnalyserVariable::typeAsString(v->type())
            << " name=" << (cv ? esc(cv->name()) : "null") << " comp=" << comp
            << " init=" << (v->initialisingVariable() ? esc(v->initialisingVariable()->name()) : "none") << " eqs=";
        for (auto &e : v->equations()) {
            auto it = eqIndex.find(e.get());
            out << (it == eqIndex.end() ? std::string("?") : std::to_string(it->second)) << ",";
        }
        out << "\n";
    };
    var(am->voi(), "voi");
    for (auto &s : am->states()) {
        var(s, "state");
    }
    for (auto &v : am->variables()) {
        var(v, "variable");
    }
    for (size_t i = 0; i < eqs.size(); ++i) {
        auto &e = eqs[i];
        out << " equation " << i << " type=" << AnalyserEquation::typeAsString(e->type()) << " rateBased=" << e->isStateRateBased() << " vars=";
        for (auto &v : e->variables()) {
            out << (v && v->variable() ? esc(v->variable()->name()) : "null") << ",";
        }
        out << " deps=";
        for (auto &d : e->dependencies()) {
            auto it = eqIndex.find(d.get());
            out << (it == eqIndex.end() ? std::string("?") : std::to_string(it->second)) << ",";
        }
        out << " nla=";
        for (auto &d : e->nlaSiblings()) {
            auto it = eqIndex.find(d.get());
            out << (it == eqIndex.end() ? std::string("?") : std::to_string(it->second)) << ",";
        }
        out << "\n";
    }
    return out.str();
}

} // namespace sim
