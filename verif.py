#!/usr/bin/env python3
"""Driver for the libcellml deterministic-simulation checks (see DESIGN.md).

  python3 verif.py build
  python3 verif.py check <property> --tier quick|thorough
  python3 verif.py replay <replay.json>
  python3 verif.py selftest determinism [--engine E] [--seeds N]

Exit codes: 0 property held on everything explored (known findings are printed as
KNOWN-FINDING lines); 1 violation (a line "VIOLATION property=<id> replay=<path>" is printed);
2 the harness failed one of its own gates (never presented as a verdict).
"""
import argparse
import concurrent.futures
import fcntl
import json
import os
import shutil
import subprocess
import sys
import tempfile
import time

ROOT = os.path.dirname(os.path.abspath(__file__))
REPO = os.environ.get("VERIF_REPO", "/repo")
BUILD = os.environ.get("VERIF_BUILD", os.path.join(ROOT, "build"))
OUT = os.environ.get("VERIF_OUT", os.path.join(ROOT, "out"))
EVIDENCE = os.environ.get("VERIF_EVIDENCE", os.path.join(ROOT, "evidence"))
SIM = os.path.join(ROOT, "sim")
CONDA_LIB = "/root/miniconda/lib"
NCPU = os.cpu_count() or 4

FLAVOURS = {
    "asan": {
        "cxx": "clang++",
        "flags": "-O1 -g -fsanitize=address,undefined -fno-sanitize-recover=undefined -fno-omit-frame-pointer",
        "extra_src": ["alloc_stub.cpp", "asan_opts.cpp"],
        "workers": 8,
    },
    "layout": {
        "cxx": "g++",
        "flags": "-O1 -g",
        "extra_src": ["alloc.cpp"],
        "workers": 16,
    },
    # only for `selftest coverage`: which library code do the simulated runs reach?
    "cov": {
        "cxx": "clang++",
        "flags": "-O0 -g -fprofile-instr-generate -fcoverage-mapping",
        "extra_src": ["alloc_stub.cpp"],
        "workers": 8,
    },
}

COMMON_SRC = ["kernel.cpp", "dump.cpp", "monitor.cpp", "ruletable.cpp", "engines.cpp", "importworld.cpp", "modelgen.cpp"]


def engine_sources():
    return sorted(f for f in os.listdir(SIM) if f.startswith("engine_") and f.endswith(".cpp"))


def log(msg):
    print(msg, flush=True)


# ---------------------------------------------------------------------------- build

def run(cmd, **kw):
    return subprocess.run(cmd, **kw)


def build_flavour(fl, verbose=False):
    spec = FLAVOURS[fl]
    bdir = os.path.join(BUILD, fl)
    lib = os.path.join(bdir, "lib")
    os.makedirs(bdir, exist_ok=True)
    cxxflags = "-DLIBCELLML_VERIF " + spec["flags"]
    stamp = os.path.join(bdir, "configured.txt")
    want = REPO + "|" + spec["cxx"] + "|" + cxxflags
    have = open(stamp).read() if os.path.exists(stamp) else ""
    if have != want or not os.path.exists(os.path.join(lib, "build.ninja")):
        shutil.rmtree(lib, ignore_errors=True)
        cmd = ["cmake", "-G", "Ninja", "-S", REPO, "-B", lib,
               "-DCMAKE_CXX_COMPILER=" + spec["cxx"], "-DLIBCELLML_BUILD_TYPE=Debug",
               "-DBUILD_SHARED=OFF", "-DUNIT_TESTS=OFF", "-DCOVERAGE=OFF", "-DLLVM_COVERAGE=OFF", "-DMEMCHECK=OFF",
               "-DBINDINGS_PYTHON=OFF", "-DTWAE=OFF", "-DCLANG_TIDY=OFF", "-DCOMPILER_CACHE=OFF",
               "-DLibXml2_DIR=" + CONDA_LIB + "/cmake/libxml2",
               "-DCMAKE_CXX_FLAGS=" + cxxflags]
        r = run(cmd, stdout=subprocess.PIPE, stderr=subprocess.STDOUT, text=True)
        if r.returncode != 0:
            log(r.stdout)
            raise SystemExit("cmake configure failed for flavour " + fl)
        open(stamp, "w").write(want)
    r = run(["ninja", "-C", lib, "cellml"], stdout=subprocess.PIPE, stderr=subprocess.STDOUT, text=True)
    if r.returncode != 0:
        log(r.stdout[-6000:])
        raise SystemExit("building libcellml failed for flavour " + fl)
    libfile = None
    for cand in ("libcellmld.a", "libcellml.a"):
        p = os.path.join(lib, "src", cand)
        if os.path.exists(p):
            libfile = p
    if libfile is None:
        raise SystemExit("static library not found for flavour " + fl)
    # cellsim
    srcs = COMMON_SRC + engine_sources() + spec["extra_src"]
    inc = "-I{0}/src/api -I{1}/src/api -I{0}/src -I{2} -isystem /root/miniconda/include/libxml2 -isystem /root/miniconda/include".format(REPO, lib, SIM)
    nin = ["cxx = " + spec["cxx"],
           "cxxflags = -std=c++17 -Wall -Wextra -Wno-unused-parameter " + cxxflags + " " + inc,
           "ldflags = " + spec["flags"] + " -L" + CONDA_LIB + " -Wl,-rpath," + CONDA_LIB,
           "rule cc", "  command = $cxx $cxxflags -MMD -MF $out.d -c $in -o $out", "  depfile = $out.d", "  deps = gcc",
           "rule link", "  command = $cxx $ldflags -pthread -o $out $in -lxml2 -lz"]
    objs = []
    for s in srcs:
        o = "obj/" + s.replace(".cpp", ".o")
        objs.append(o)
        nin.append("build {}: cc {}".format(o, os.path.join(SIM, s)))
    nin.append("build cellsim: link {} {}".format(" ".join(objs), libfile))
    nin.append("default cellsim")
    text = "\n".join(nin) + "\n"
    nf = os.path.join(bdir, "sim.ninja")
    if not os.path.exists(nf) or open(nf).read() != text:
        open(nf, "w").write(text)
    r = run(["ninja", "-C", bdir, "-f", "sim.ninja"], stdout=subprocess.PIPE, stderr=subprocess.STDOUT, text=True)
    if r.returncode != 0:
        log(r.stdout[-8000:])
        raise SystemExit("building cellsim failed for flavour " + fl)
    if verbose:
        log("built flavour {} ({})".format(fl, os.path.join(bdir, "cellsim")))
    return os.path.join(bdir, "cellsim")


def build(flavours=("asan", "layout"), verbose=False):
    os.makedirs(BUILD, exist_ok=True)
    with open(os.path.join(BUILD, ".lock"), "w") as lk:
        fcntl.flock(lk, fcntl.LOCK_EX)
        # the two flavours build concurrently (each ninja uses all cores; they interleave fine)
        import concurrent.futures
        with concurrent.futures.ThreadPoolExecutor(max_workers=2) as ex:
            futs = {fl: ex.submit(build_flavour, fl, verbose) for fl in flavours}
            return {fl: f.result() for fl, f in futs.items()}


# ---------------------------------------------------------------------------- known findings

def load_known():
    p = os.path.join(ROOT, "known_findings.json")
    if not os.path.exists(p):
        return {"findings": [], "fixed": []}
    return json.load(open(p))


def known_signatures(known, engine=None):
    sigs = set()
    for f in known.get("findings", []):
        for s in f.get("signatures", []):
            sigs.add(s)
    return sigs


# ---------------------------------------------------------------------------- running batches

class Batch:
    def __init__(self, engine, flavour, count, cfg=None, label=None, sweep=False):
        self.engine = engine
        self.flavour = flavour
        self.count = count
        self.cfg = cfg or {}
        self.label = label or engine
        self.sweep = sweep


def run_batch(binaries, batch, seed, tier, known_file, outdir, workers=None, samples=2, start=0):
    spec = FLAVOURS[batch.flavour]
    w = min(workers or spec["workers"], max(1, batch.count))
    procs = []
    t0 = time.time()
    for i in range(w):
        cmd = [binaries[batch.flavour], "run", batch.engine, "--seed", str(seed), "--start", str(start), "--count", str(batch.count),
               "--stride", str(w), "--offset", str(i), "--tier", tier, "--out", outdir,
               "--samples", str(samples if i == 0 else 0)]
        if known_file:
            cmd += ["--known", known_file]
        for k, v in batch.cfg.items():
            cmd += ["--cfg", "{}={}".format(k, v)]
        procs.append(subprocess.Popen(cmd, stdout=subprocess.PIPE, stderr=subprocess.PIPE, text=True))
    res = {"runs": 0, "fps": {}, "nontrivial_fps": set(), "totals": {}, "states": set(), "violations": [], "known_hits": {},
           "harness": [], "samples": [], "events": 0, "label": batch.label, "engine": batch.engine, "flavour": batch.flavour,
           "dup_violations": 0}
    # drain all workers at once (a worker whose pipe is full would otherwise wait for its turn)
    with concurrent.futures.ThreadPoolExecutor(max_workers=len(procs)) as ex:
        outputs = list(ex.map(lambda pr: pr.communicate(), procs))
    for p, (out, err) in zip(procs, outputs):
        for line in out.split("\n"):
            f = line.split("\t")
            if f[0] == "R" and len(f) >= 6:
                res["runs"] += 1
                res["fps"][int(f[1])] = f[2]
                if f[3] == "1" and f[4] == "0":
                    res["nontrivial_fps"].add(f[2])
                res["events"] += int(f[5])
            elif f[0] == "SAMPLE":
                res["samples"].append({"engine": batch.engine, "run": int(f[1]), "plan": json.loads(f[2])})
            elif f[0] == "KNOWNHIT":
                res["known_hits"][f[3]] = res["known_hits"].get(f[3], 0) + 1
            elif f[0] == "VIOL":
                res["violations"].append({"run": int(f[1]), "property": f[2], "class": f[3], "signature": f[4], "replay": f[5],
                                          "original_steps": int(f[6]), "minimised_steps": int(f[7]), "shrink_runs": int(f[8]),
                                          "detail": f[9] if len(f) > 9 else ""})
            elif f[0] == "DUP":
                res["dup_violations"] += 1
            elif f[0] == "HARNESS":
                res["harness"].append(line)
            elif f[0] == "TOTALS":
                for kv in f[1:]:
                    k, v = kv.split("=")
                    res["totals"][k] = res["totals"].get(k, 0) + int(v)
            elif f[0] == "STATES":
                res["states"].update(f[1:])
        if p.returncode not in (0, 1, 2):
            res["harness"].append("worker exited with status {}: {}".format(p.returncode, err[-2000:]))
        elif p.returncode == 2 and not any(h for h in res["harness"]):
            res["harness"].append("worker reported a harness error: " + err[-2000:])
    res["wall"] = time.time() - t0
    return res


def exec_plan(binary, plan_lines, trace=False):
    with tempfile.NamedTemporaryFile("w", suffix=".plan", delete=False, dir=OUT) as tf:
        tf.write("\n".join(plan_lines) + "\n")
        name = tf.name
    try:
        cmd = [binary, "exec", name]
        if trace:
            cmd.append("--trace")
        r = run(cmd, stdout=subprocess.PIPE, stderr=subprocess.PIPE, text=True)
    finally:
        os.unlink(name)
    info = {"violation": False, "fp": None, "rc": r.returncode, "stderr": r.stderr}
    for line in r.stdout.split("\n"):
        if line.startswith("RESULT"):
            for kv in line.split()[1:]:
                k, v = kv.split("=")
                if k == "fp":
                    info["fp"] = v
        elif line.startswith("VIOL\t"):
            f = line.split("\t")
            info.update({"violation": True, "property": f[1], "class": f[2], "signature": f[3], "step": int(f[4]), "detail": f[5]})
    return info


def engine_flavour(engine):
    return {"equiv": "layout", "purity": "layout"}.get(engine, "asan")


def replay_file(binaries, path, trace=False):
    rep = json.load(open(path))
    fl = rep.get("flavour") or engine_flavour(rep["engine"])
    info = exec_plan(binaries[fl], rep["plan"], trace)
    same = info["violation"] and info.get("property") == rep["property"] and info.get("class") == rep["class"]
    exact = same and info.get("fp") == rep.get("fingerprint") and info.get("signature") == rep.get("signature")
    return rep, info, same, exact


# ---------------------------------------------------------------------------- per-property configuration

def history_table_size():
    exe = os.path.join(BUILD, "asan", "cellsim")
    try:
        return int(subprocess.check_output([exe, "sweepsize", "history"], text=True).strip())
    except Exception:
        return 1169


def batches_for(prop, tier):
    q = tier == "quick"
    if prop == "C18":
        return [
            Batch("equiv", "layout", 3000 if q else 30000, {"planted": 0}, "equiv/random-layouts"),
            Batch("equiv", "layout", 2000 if q else 15000, {"planted": 1}, "equiv/planted-collisions"),
            Batch("equiv", "layout", 1500 if q else 15000, {"planted": 2}, "equiv/lattice-layouts"),
        ]
    if prop == "C07":
        return [
            Batch("import", "asan", 200 * (24 if q else 400), {"sweep": 1}, "import/single-fault-sweep"),
            # the enumerated family: 144 small graphs x {permissive, strict} x {client re-parses its model and drops old importers,
            # client keeps its model object and its old importers} x every applicable single fault (all of it in the thorough tier)
            Batch("import", "asan", 200 * (36 if q else 576), {"sweep": 1, "enum": 1}, "import/enumerated-small-graphs-single-fault-sweep"),
            Batch("import", "asan", 3000 if q else 120000, {}, "import/seeded-multi-fault"),
        ]
    if prop == "C09":
        return [
            # one run per (entry point, argument slot) x badness kind; the size of the table is asked from the simulator
            Batch("history", "asan", history_table_size() * (2 if q else 12), {"table": 1}, "history/entry-point-x-badness-table"),
            Batch("history", "asan", 5000 if q else 400000, {}, "history/seeded-histories"),
        ]
    if prop == "C11":
        return [
            Batch("history", "asan", 4000 if q else 200000, {"clones": 1, "services": 0}, "history/clone-then-mutate"),
            Batch("history", "asan", 2000 if q else 60000, {"clones": 1, "services": 0, "eqstress": 1}, "history/clone-with-dense-equivalences"),
        ]
    if prop == "C12":
        return [
            Batch("purity", "layout", 700 if q else 20000, {}, "purity/interleaved-clients+layout-twin+isolation"),
            Batch("purity", "asan", 60 if q else 1500, {"probes": 0}, "purity/asan-smoke"),
            # generated import graphs: a resolution repeated with nothing in between answers the same; flattenModel leaves its
            # input and the library models unchanged
            Batch("import", "asan", 200 * (36 if q else 288), {"sweep": 1, "enum": 1, "keep": 1}, "import/repeated-resolution+flatten-purity"),
            Batch("import", "asan", 1200 if q else 30000, {}, "import/seeded-multi-fault"),
        ]
    if prop == "C13":
        return [
            Batch("annot", "asan", 6000 if q else 200000, {}, "annot/annotator-vs-editor"),
            Batch("annot", "asan", 1500 if q else 40000, {"editor": 0}, "annot/no-editor"),
        ]
    if prop == "C15":
        return [
            Batch("annot", "asan", 1500 if q else 40000, {}, "annot/annotator-vs-editor"),
            Batch("import", "asan", 200 * (8 if q else 100), {"sweep": 1, "sweepseed": 2}, "import/single-fault-sweep"),
            Batch("import", "asan", 2500 if q else 60000, {}, "import/seeded-multi-fault"),
            Batch("equiv", "layout", 300 if q else 5000, {}, "equiv/analyser-issues"),
            Batch("purity", "layout", 250 if q else 6000, {"probes": 0, "layoutaux": 0}, "purity/parser-validator-analyser-printer-issues"),
        ]
    raise SystemExit("no check is defined for property " + prop)


LEVELS = {"C07": "fault_enumeration"}

RULES = {
    "C09": "one case = one simulated run: a universe of 1-2 models, 2-5 components, 2-5 variables, 1-3 units, 1-3 resets, 0-2 import sources built through the API "
           "(optionally with structurally identical siblings, cousins and deep copies - up to three of a kind in different branches - and parentless entities), then 10-60 steps drawn from every public mutator and query of the object model "
           "(add/remove/take/replace/contains by index, name and pointer, removeAll*, moves, self/ancestor insertion, equivalences, attribute setters, clone, DROP = the simulator "
           "releases its strong reference) and from 94 service entry points (Annotator, Importer, Analyser, AnalyserExternalVariable, AnalyserModel, Validator, Printer, Generator, "
           "model/component/units queries), each argument slot optionally replaced by a bad value {null, never added, owner destroyed, index == count, index == SIZE_MAX, unknown "
           "name, entity of another model}. Table batch: run i exercises (entry point, slot) x badness kind pair i once. Oracle: per-operation specification on an identity-keyed "
           "snapshot (set of permitted after-states, liveness closure over strong references after DROP) plus global ownership invariants after every step, under ASan/UBSan. "
           "distinct = distinct event-log fingerprints; non-trivial = at least one specification comparison or bad-argument check was made.",
    "C11": "one case = one simulated run of the history engine with clones enabled: an entity reached by an arbitrary prior history is cloned (model, component, units, variable, "
           "reset); at the clone step the copy's canonical dump, equals() in both directions, parent() and object identity of everything reachable (no object shared with the "
           "original, import sources included) are checked, every entity of the copy becomes a tracked handle, and the remaining steps mutate or DROP either side while the frame "
           "condition of every step asserts that the other side's snapshot and attribute digests do not change. distinct / non-trivial as for C09.",
    "C12": "one case = one simulated run: 2-4 client tasks whose scripts (parse / API-build / print / validate / analyse with external variables / generate C or Python / "
           "resolve / flatten / clone / equals / annotator lookups over documents of the repository's tests/resources corpus, <= 24 kB) are interleaved by the seeded scheduler, on fresh and on "
           "reused service instances, under a seeded heap layout. Each run is preceded by auxiliary runs in fresh processes: the same plan under another allocator policy "
           "(layout twin) and the dependency slices of up to two probe steps (isolation). Oracles: same call identity (op, documented instance state, digest of the argument's "
           "canonical dump) => same observation; main run == layout twin; main run == isolation slice; arguments dump identically before/after; results still held are "
           "re-dumped at the end. Two batches of the import engine (generated import graphs on the simulated file layer) add: a resolution repeated with nothing in "
           "between gives the same verdict and error/warning issues, and flattenModel leaves its input and the library models unchanged. "
           "distinct = distinct event-log fingerprints; non-trivial = at least one cross-occurrence, twin or isolation comparison was made.",
    "C13": "one case = one simulated run: a generated model (1-5 components, units with unit items, resets, imports, equivalences; ids absent / unique / duplicated / "
           "auto-id shaped around the annotator's counter) shared by an annotator client (setModel, assignAllIds both overloads, assignIds for every type, every assignId "
           "overload, clearAllIds, lookup batteries, printModel(model, true)) and an editor client that sets or clears ids on any item kind (including exactly the next id the "
           "annotator would hand out), adds/removes components, variables, units, resets and equivalences, or destroys the model; the scheduler decides how many edits land "
           "between setModel, lookups and assignments. Oracle = independent traversal of the model before/after each call. distinct = distinct event-log fingerprints; "
           "non-trivial = at least one id was assigned and checked.",
    "C07": "one case = one simulated run over a generated import graph (2-6 files in 1-3 directories; units and component imports, chains, diamonds, "
           "shared import elements, encapsulation below imports) served by the simulated file layer. Sweep batch: every file x every single fault "
           "(absent, unreadable, 7 truncation classes, failing reads in EOF and exception flavour, replaced by HTML / garbage / empty / directory / CellML 1.1, "
           "every import reference broken, every import chain closed into a cycle, cycles of ordinary units, an imported entity with a parser error of its own, an "
           "imported entity renamed in the file that defines it) applied alone, resolved, flattened, repaired and resolved again twice (fresh importer / removeAllModels / "
           "same importer), by a client that either re-parses its model and drops old importers or keeps its model object and its old importers alive. Seeded batch: "
           "multi-fault sequences, in-flight changes at open() yield points, two clients, shared importers, stale libraries, kept importers. Oracle = reference resolver "
           "over what the file layer actually served; a resolution repeated with nothing in between answers the same (C12). distinct = distinct event-log fingerprints; "
           "non-trivial = at least one fault was active on a needed file (or a flattening succeeded) while a verdict was compared.",
    "C15": "one case = one simulated run of the import or equiv engine with the C15 monitor evaluated after every service call (counts, per-level accessors against the "
           "level-filtered issue sequence, out-of-range indices, description, rule heading/URL, typed item) plus the failure-explained rule; once per run every value of "
           "Issue::ReferenceRule and CellmlElementType is pushed through the metadata accessors. distinct = distinct event-log fingerprints; non-trivial as in the engine's own rule.",
    "C18": "one case = one simulated run: a generated connection graph (chains/stars/cycles/random/sparse over 4-24 variables in 2-8 components) "
           "placed by the simulated allocator (bump / reverse / seeded shuffle / four variables planted on a computed cache-key collision), analysed, "
           "then queried for all ordered pairs in a seeded order with 1-3 repetitions through AnalyserModel::areEquivalentVariables and "
           "Variable::hasEquivalentVariable(.., true); oracle = union-find reachability over equivalentVariable lists. "
           "distinct = distinct event-log fingerprints; non-trivial = the run executed at least one query that was compared with the oracle.",
}

ASSUMPTIONS = {
    "C09": ["adding an entity to the container that already holds it is never generated (excluded by the property)",
            "'structurally equal child' includes any child that the library's own equals() takes for equal to the argument in either direction (Component::equals() is not symmetric and a test pins that; the equality relation itself is C10, not applicable)",
            "generated equivalences never put two variables of one component into one equivalence class",
            "strong references assumed for the liveness closure: container -> children, Variable -> Units, Reset -> variable/test variable, Component/Units -> ImportSource; weak: parent, equivalences, ImportSource -> model"],
    "C11": ["equivalences to variables outside the cloned object and the linked/unlinked state of variable units are excluded from the dump comparison",
            "reset variable references are compared by variable name (what a serialisation holds)"],
    "C12": ["documented state that is part of a call's identity: parser/importer strict flag, importer library (keys and model contents), import links of the model, "
            "analyser external variables (set by the step itself), generator profile and model",
            "libxml2's keep-blanks default is read through its public accessor only to label events (classification of the listed keep-blanks finding), never to decide a verdict",
            "the asan smoke batch runs without layout twin and isolation slices (ASan owns the allocator)"],
    "C13": ["generated equivalences never put two variables of one component into the same equivalence class (no CellML document can express that, and the library's per-connection id storage is not defined for it)",
            "connection ids are observed through Variable::equivalenceConnectionId() of directly equivalent pairs (one connection = one pair of components)",
            "the return value of assignAllIds()/assignIds() ('something was assigned') is not checked: the property does not state it",
            "assignId() on a map_variables/connection pair with a variable outside the annotator's model is expected to fail (with an issue)"],
    "C07": ["real-filesystem semantics below the hook (permissions, symlinks, path encodings) are not simulated; PATH_MAX is (opens of URLs longer than 4096 bytes fail)",
            "files whose parser errors concern the imported entity itself are not generated (the expected verdict is then not determined by the property)",
            "a reachable cycle of ordinary (non-imported) units makes the verdict undetermined: only termination, coherence and flatten-null-with-issue are checked there",
            "an importer holding a stale library entry (file changed after it was cached) is only required to terminate and stay coherent"],
    "C15": ["issues cannot be constructed through the public API: one translation unit of the simulator reads the private issue header to enumerate rule values"],
    "C18": ["after an analysis the equivalences are not edited until the next analysis (AnalyserModel documents that it caches a static model); components may be taken out of the model and put back, which leaves the connection graph as analysed",
            "libcellml, libxml2 2.13.9 and zlib run as real code; only the C++ allocator is simulated (layout flavour)",
            "the collision search models the key formula; each prediction is confirmed against the key the real method computed (hook H2)"],
}


def check(prop, tier, seed):
    t0 = time.time()
    os.makedirs(OUT, exist_ok=True)
    outdir = os.path.join(OUT, prop)
    shutil.rmtree(outdir, ignore_errors=True)
    os.makedirs(outdir, exist_ok=True)
    binaries = build()
    known = load_known()
    rc = 0
    lines = []
    # 1. replay every listed finding of this property
    known_status = []
    for f in known.get("findings", []):
        if f["property"] != prop:
            continue
        path = os.path.join(ROOT, f["replay"])
        rep, info, same, exact = replay_file(binaries, path)
        if same:
            log("KNOWN-FINDING: property={} {}".format(prop, f["description"]))
            known_status.append({"id": f.get("id"), "still_fails": True, "exact_fingerprint": exact})
        else:
            log("KNOWN-FINDING-GONE: property={} {} (replay no longer fails in the same way)".format(prop, f["description"]))
            known_status.append({"id": f.get("id"), "still_fails": False})
    # 1b. replay every recorded replay file of a defect that has been repaired: a repaired defect that comes back is a violation
    listed = {os.path.normpath(os.path.join(ROOT, f["replay"])) for f in known.get("findings", [])}
    all_sigs = {s for f in known.get("findings", []) for s in f.get("signatures", [])}
    regressions = []
    replayed = 0
    import glob
    for path in sorted(glob.glob(os.path.join(ROOT, "findings", "**", "*.json"), recursive=True)):
        if os.path.normpath(path) in listed:
            continue
        try:
            rep = json.load(open(path))
        except Exception:
            continue
        if rep.get("property") != prop:
            continue
        rep2, info, same, exact = replay_file(binaries, path)
        replayed += 1
        if info.get("violation") and info.get("property") == prop and info.get("signature") not in all_sigs:
            regressions.append({"run": -1, "property": prop, "class": info.get("class"), "signature": info.get("signature"), "replay": path,
                                "original_steps": len(rep.get("plan", [])), "minimised_steps": len(rep.get("plan", [])), "shrink_runs": 0,
                                "detail": "a recorded, repaired defect fails again: " + info.get("detail", "")})
    log("replayed {} recorded replay files of repaired defects: {} fail again".format(replayed, len(regressions)))
    sigs = sorted(s for f in known.get("findings", []) for s in f.get("signatures", []))
    known_file = os.path.join(outdir, "known.sigs")
    open(known_file, "w").write("\n".join(sigs) + ("\n" if sigs else ""))
    # 2. exploration batches
    results = []
    for b in batches_for(prop, tier):
        r = run_batch(binaries, b, seed, tier, known_file, outdir)
        results.append(r)
        transient = r["totals"].get("transient_child_failures_not_reproduced", 0)
        log("batch {:<32} runs={:<6} distinct={:<6} violations={} known-hits={} wall={:.1f}s{}".format(
            b.label, r["runs"], len(set(r["fps"].values())), len(r["violations"]) + r["dup_violations"], sum(r["known_hits"].values()), r["wall"],
            "  (child failures that did not reproduce, tolerated: {})".format(transient) if transient else ""))
    # 3. verdict
    harness = [h for r in results for h in r["harness"]]
    violations = regressions + [v for r in results for v in r["violations"]]
    mine = [v for v in violations if v["property"] == prop]
    others = [v for v in violations if v["property"] != prop]
    for v in mine:
        log("VIOLATION property={} replay={}".format(prop, v["replay"]))
        log("  class={} signature={} steps {}->{} detail={}".format(v["class"], v["signature"], v["original_steps"], v["minimised_steps"], v["detail"]))
        rc = 1
    for v in others:
        # a monitor of another property fired inside this property's batch: reported under its own id
        log("VIOLATION property={} replay={}".format(v["property"], v["replay"]))
        log("  (found while checking {}) class={} signature={} detail={}".format(prop, v["class"], v["signature"], v["detail"]))
        rc = 1
    if harness:
        for h in harness[:10]:
            log("HARNESS-ERROR: " + h)
        rc = 2
    write_evidence(prop, tier, seed, results, known_status, violations, time.time() - t0, replayed)
    log("{} {} tier={} seed={} runs={} wall={:.1f}s".format("OK" if rc == 0 else ("VIOLATIONS" if rc == 1 else "HARNESS-ERROR"), prop, tier, seed, sum(r["runs"] for r in results), time.time() - t0))
    return rc


def write_evidence(prop, tier, seed, results, known_status, violations, wall, replayed=0):
    os.makedirs(EVIDENCE, exist_ok=True)
    runs = sum(r["runs"] for r in results)
    nontrivial = set()
    allfps = set()
    states = set()
    totals = {}
    per_batch = []
    samples = []
    for r in results:
        nontrivial |= {r["engine"] + ":" + fp for fp in r["nontrivial_fps"]}
        allfps |= {r["engine"] + ":" + fp for fp in r["fps"].values()}
        states |= {r["engine"] + ":" + s for s in r["states"]}
        for k, v in r["totals"].items():
            totals[k] = totals.get(k, 0) + v
        per_batch.append({"batch": r["label"], "engine": r["engine"], "flavour": r["flavour"], "runs": r["runs"],
                          "exhaustive_over": ("the enumerated family of 144 small import graphs x 2 importer modes x 2 client habits (model re-parsed and old importers dropped / same model object and old importers kept alive) x every applicable single fault (slots beyond a graph's fault list repeat the fault-free run)"
                                              if r["label"].startswith("import/enumerated") and r["runs"] >= 200 * 576 else None),
                          "distinct_fingerprints": len(set(r["fps"].values())), "wall_s": round(r["wall"], 2),
                          "runs_per_hour": int(r["runs"] / max(r["wall"], 1e-6) * 3600),
                          "known_finding_hits": r["known_hits"], "violations": len(r["violations"]) + r["dup_violations"]})
        samples += r["samples"][:2]
    faults = {k: v for k, v in totals.items() if k.startswith("fault_")}
    probes = {k: v for k, v in totals.items() if not k.startswith("fault_")}
    ev = {
        "property_id": prop,
        "tier": tier,
        "seed": seed,
        "level": LEVELS.get(prop, "exploration"),
        "coverage": {
            "evaluations": runs,
            "distinct_nontrivial": len(nontrivial),
            "rule": RULES.get(prop, ""),
            "samples": samples if samples else [{"note": "no non-trivial clean run was sampled"}],
            "distinct_fingerprints": len(allfps),
            "distinct_abstract_states": len(states),
            "simulated_steps": totals.get("steps_planned", 0),
            "events_logged": sum(r["events"] for r in results),
            "runs_per_hour": int(runs / max(sum(r["wall"] for r in results), 1e-6) * 3600),
            "faults_fired": faults,
            "probes": probes,
            "batches": per_batch,
            "known_findings": known_status,
            "recorded_replays_of_repaired_defects_rerun": replayed,
            "real_components": ["libcellml (all of it, built from /repo's working tree with -DLIBCELLML_VERIF)", "libxml2 2.13.9", "zlib"],
            "stubbed_components": ["file layer under Importer::fetchModel (VFS, hook H1)", "global C++ allocator (layout flavour only)"],
            "exhaustive": False,
        },
        "assumptions": ASSUMPTIONS.get(prop, []),
        "wall_s": round(wall, 2),
        "violations": len(violations),
    }
    with open(os.path.join(EVIDENCE, prop + ".json"), "w") as f:
        json.dump(ev, f, indent=1, sort_keys=False)
        f.write("\n")


# ---------------------------------------------------------------------------- self tests

def selftest_determinism(engine, seeds, count):
    """Every seed twice, at two worker counts: all fingerprints must agree pairwise."""
    binaries = build()
    fl = engine_flavour(engine)
    os.makedirs(OUT, exist_ok=True)
    outdir = os.path.join(OUT, "selftest")
    os.makedirs(outdir, exist_ok=True)
    bad = 0
    total = 0
    known_file = os.path.join(outdir, "known.sigs")
    open(known_file, "w").write("\n".join(sorted(s for f in load_known().get("findings", []) for s in f.get("signatures", []))) + "\n")
    for seed in range(1, seeds + 1):
        b = Batch(engine, fl, count)
        env_backup = os.environ.get("VERIF_DUMMY")
        a = run_batch(binaries, b, seed, "quick", known_file, outdir, workers=16)
        os.environ["VERIF_DUMMY"] = "x" * 3000
        c = run_batch(binaries, b, seed, "quick", known_file, outdir, workers=5)
        if env_backup is None:
            os.environ.pop("VERIF_DUMMY", None)
        for idx, fp in a["fps"].items():
            total += 1
            if c["fps"].get(idx) != fp:
                bad += 1
                log("DIVERGENCE engine={} seed={} run={} {} vs {}".format(engine, seed, idx, fp, c["fps"].get(idx)))
    log("determinism engine={} runs={} divergences={}".format(engine, total, bad))
    return 0 if bad == 0 else 2


def selftest_coverage(count):
    """Reach: line/function coverage of the library sources by the simulated runs (llvm-cov)."""
    binaries = build(flavours=("cov",))
    outdir = os.path.join(OUT, "coverage")
    shutil.rmtree(outdir, ignore_errors=True)
    os.makedirs(outdir, exist_ok=True)
    known_file = os.path.join(outdir, "known.sigs")
    open(known_file, "w").write("\n".join(sorted(s for f in load_known().get("findings", []) for s in f.get("signatures", []))) + "\n")
    os.environ["LLVM_PROFILE_FILE"] = os.path.join(outdir, "prof-%8m.profraw")
    for engine, cfg in (("equiv", {}), ("import", {"sweep": 1}), ("import", {}), ("annot", {}), ("purity", {"layoutaux": 0, "probes": 0}), ("history", {"table": 1}), ("history", {})):
        b = Batch(engine, "cov", count, cfg)
        r = run_batch(binaries, b, 1, "quick", known_file, outdir, workers=8)
        log("coverage batch {} {} runs={} violations={}".format(engine, cfg, r["runs"], len(r["violations"])))
    prof = os.path.join(outdir, "all.profdata")
    import glob
    run(["llvm-profdata-14", "merge", "-sparse", "-o", prof] + glob.glob(os.path.join(outdir, "*.profraw")))
    rep = run(["llvm-cov-14", "report", binaries["cov"], "-instr-profile=" + prof, "-ignore-filename-regex=(sim/|/usr/|miniconda|build/)"], stdout=subprocess.PIPE, text=True).stdout
    open(os.path.join(ROOT, "selftest", "COVERAGE.txt"), "w").write(rep)
    log(rep[-3000:])
    return 0


def main():
    ap = argparse.ArgumentParser()
    sub = ap.add_subparsers(dest="cmd")
    sub.add_parser("build")
    c = sub.add_parser("check")
    c.add_argument("property")
    c.add_argument("--tier", default=os.environ.get("VERIF_TIER", "quick"))
    r = sub.add_parser("replay")
    r.add_argument("file")
    r.add_argument("--trace", action="store_true")
    s = sub.add_parser("selftest")
    s.add_argument("what")
    s.add_argument("--engine", default="equiv")
    s.add_argument("--seeds", type=int, default=4)
    s.add_argument("--count", type=int, default=500)
    args = ap.parse_args()
    seed = int(os.environ.get("VERIF_SEED", "1"))
    if args.cmd == "build":
        build(verbose=True)
        return 0
    if args.cmd == "check":
        return check(args.property, args.tier, seed)
    if args.cmd == "replay":
        os.makedirs(OUT, exist_ok=True)
        binaries = build()
        rep, info, same, exact = replay_file(binaries, args.file, args.trace)
        if args.trace:
            sys.stderr.write(info["stderr"])
        if same:
            log("VIOLATION property={} replay={}".format(rep["property"], args.file))
            log("  reproduced: class={} signature={} fingerprint={} ({})".format(info["class"], info["signature"], info["fp"], "exact" if exact else "same class, different fingerprint"))
            log("  detail: " + info.get("detail", ""))
            return 1
        log("not reproduced: " + json.dumps({k: v for k, v in info.items() if k != "stderr"}))
        return 0
    if args.cmd == "selftest":
        if args.what == "determinism":
            return selftest_determinism(args.engine, args.seeds, args.count)
        if args.what == "coverage":
            return selftest_coverage(args.count)
    ap.print_help()
    return 2


if __name__ == "__main__":
    sys.exit(main())
