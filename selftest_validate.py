#!/usr/bin/env python3
"""Validate MANIFEST.json and evidence files against the given schemas (run with python3-vt)."""
import glob, json, sys
import jsonschema
ok = True
def v(path, schema):
    global ok
    try:
        jsonschema.validate(json.load(open(path)), json.load(open(schema)))
        print("ok   ", path)
    except Exception as e:
        ok = False
        print("FAIL ", path, str(e)[:400])
v("/verif/MANIFEST.json", "/root/.vp/MANIFEST.schema.json")
for f in sorted(glob.glob("/verif/evidence/*.json")):
    v(f, "/root/.vp/EVIDENCE.schema.json")
sys.exit(0 if ok else 1)
